#!/bin/bash
# usage: tools/try_seed.sh <PROP> <patch.diff> [tier]   — run a check against a scratch copy of /repo/src with the patch applied
set -e
PROP=$1; PATCH=$2; TIER=${3:-quick}
T=$(mktemp -d /tmp/vxseed_XXXX)
cp -r /repo/src $T/src
patch -s -p1 -d $T < $PATCH
VX_REPO=$T VX_OUT=$T/out /verif/vx check $PROP --tier $TIER || true
rm -rf $T
