#!/bin/bash
# usage: tools/confirm_seed.sh <ID> <seed dir> "<ninja targets>" "<ctest -R regex>" [demo args]
# Confirms in the scratch worktree /tmp/wt_confirm that the seeded change compiles, passes the named existing tests,
# that its demonstration fails with it and passes without it; then runs the /verif check against it.
ID=$1; SD=$2; TARGETS=$3; RX=$4; shift 4
WT=/tmp/wt_confirm; LOG=/tmp/confirm_$ID.log
: > $LOG
cd $WT && git checkout -q -- . && git apply $SD/patch.diff || { echo "patch does not apply" | tee -a $LOG; exit 2; }
echo "== build with change: $TARGETS" >> $LOG
ninja -C _b -j 8 $TARGETS >> $LOG 2>&1; B1=$?
echo "== existing tests with change: $RX" >> $LOG
ctest --test-dir _b -j 6 --timeout 1500 -R "$RX" >> $LOG 2>&1; T1=$?
echo "== demo with change" >> $LOG
SOUFFLE_BIN=$WT/_b/src/souffle bash $SD/demo/run.sh $WT "$@" >> $LOG 2>&1; D1=$?
git checkout -q -- .
echo "== rebuild without change" >> $LOG
ninja -C _b -j 8 $TARGETS >> $LOG 2>&1
echo "== demo without change" >> $LOG
SOUFFLE_BIN=$WT/_b/src/souffle bash $SD/demo/run.sh $WT "$@" >> $LOG 2>&1; D0=$?
echo "== /verif check against the change" >> $LOG
/verif/tools/try_seed.sh $ID $SD/patch.diff > /tmp/confirm_${ID}_vx.log 2>&1
grep -E "^vx:|VIOLATION|UNDECIDED|failed obligation" /tmp/confirm_${ID}_vx.log | cut -c1-400 >> $LOG
echo "SUMMARY $ID build=$B1 tests=$T1 demo_with=$D1 demo_without=$D0" | tee -a $LOG
