#!/usr/bin/env python3
"""Writes /verif/MANIFEST.json from the tables below (kept in one place so that claimed + not_applicable always
partition the 31 given properties)."""
import json
import os

ROOT = os.path.dirname(os.path.dirname(os.path.abspath(__file__)))

CLAIMED = {
    'C30': dict(
        text='Proof, per method of the real OptimisticReadWriteLock (extracted mechanically each run), of contracts whose '
             'postconditions are the four clauses of the property, under rely/guarantee with ghost state (writer id, commit count): '
             'every atomic step of every method is checked against the guarantee and the invariant, the environment may take any '
             'number of steps allowed by the rely at every atomic operation, and the rely/guarantee side conditions are lemmas. '
             'Unbounded in threads, schedule and spin iterations (loop invariants).',
        note='sequential consistency assumed (memory orders ignored); <2^31 commits during one read lease; <2^31 spins per wait; '
             'stub std::atomic and CBMC C++ front end trusted; clause 4 proved as zero spins when no other thread writes',
        technique='CBMC function contracts (DFCC) on extracted C++ + rely/guarantee ghost monitor + loop-invariant hooks',
        design='DESIGN.md §3 C30'),
    'C22': dict(
        text='Proof that the interpreter\'s Engine::incCounter body and the expression the synthesiser emits for AutoIncrement each take '
             'exactly one atomic +1 step on the shared counter and return the value tied to the ghost index of their own step, under a '
             'rely that lets any number of other threads take such steps at every atomic operation; distinct indices give distinct values (lemma). '
             'Unbounded in threads and schedule.',
        note='sequential consistency; fewer than 2^32 uses per run; single use site per engine (static facts re-checked each run); stub std::atomic trusted; '
             'conditional compilation resolved as in the shipped build (_OPENMP defined); a body that keeps per-thread state besides the counter is outside the contract (undecided, exit 2)',
        technique='CBMC function contracts (DFCC) on extracted C++ + rely/guarantee ghost monitor',
        design='DESIGN.md §3 C22'),
    'C18': dict(
        text='Partial. Proof, for all 2^64 results std::stoul can produce (and all stoi results), that the numeric tail of the real '
             'RamUnsignedFromString / RamSignedFromString returns normally exactly when the parsed value is representable in the 32-bit column '
             'type and then returns exactly that value with the position the std function reported (+2 for a stripped 0b); and that '
             'ReadStreamCSV::readRamUnsigned returns the value RamUnsignedFromString produced; RamFloatFromString returns std::stof\'s value and never stores a finite '
             'literal as an infinity. Loop-free, full-width symbolic inputs: complete for these functions. Plus a BOUNDED check (lines of at most 6/9 bytes, any bytes, any '
             'delimiter, both modes) that ReadStreamCSV::nextElement never reads outside the line, terminates, and reports an error or returns a field. NOT covered: '
             'prefix/base detection, completeness check, records/ADTs, error message text (std::string / stream code outside CBMC\'s C++ front end). '
             'Two genuine defects found and fixed (313a66312, d90dba857).',
        note='assumed contracts of std::stoul/stoi (value of longest valid prefix or throw); opaque std::string stub; slicing of the function at the '
             '`tmp` declaration validated syntactically each run; RAM_DOMAIN_SIZE=32',
        technique='CBMC function contracts (DFCC) on mechanically sliced C++ function tails, full-domain symbolic inputs',
        design='DESIGN.md §3 C18'),
    'C08': dict(
        text='Partial. Proof, for every bound mask and every pair of 32-bit values, that the real EquivalenceRelation::lower_bound (interpreter '
             'path, under the caller\'s MIN_RAM_SIGNED encoding of unbound columns) and getBoundaries<0|1|2> (compiled path) return the range '
             'the property demands (all pairs / pairs with that first element / that pair / empty), through the real iterator factories begin/anteriorIt/antpostit, '
             'and that the per-class list cache is regenerated before it is read (ghost freshness flag; the cache may be stale at entry). One genuine defect is recorded as a known '
             'finding (bound value == MIN_RAM_SIGNED); inputs outside that class are proved. NOT covered: btree/brie/default transparency and '
             'closure maintenance (see C28/C29).',
        note='iteration abstracted to a ghost range descriptor, cache rebuilding to a ghost flag; sds.nodeExists/contains/findNode uninterpreted; caller encoding taken from static facts on '
             'Generator.cpp/Index.h re-checked each run',
        technique='CBMC function contracts (DFCC) on extracted C++ member functions, full-domain symbolic inputs, native replay on the real header',
        design='DESIGN.md §3 C08'),
    'C25': dict(
        text='Partial. (1) In-node search: proof, for every sorted node (up to 4096 int keys; up to 64 two-column keys compared lexicographically through the real comparator<T>; duplicates allowed) and every key, that the real '
             'BTreeUtil.h search strategies — linear_search and binary_search, each operator()/lower_bound/upper_bound — return the least position '
             'whose element is >= key (resp. > key; resp. a position holding the key or else the lower bound), stay within [a,b], write nothing '
             'and terminate (loop invariants + variants, unbounded iterations), and that comparator<int> is a correct three-way comparison. '
             '(2) Node level of BTree.h (IS_PARALLEL variant, instantiation maxKeys = 4, labelled bounded): node::split and node::grow_parent (quick tier), '
             'node::rebalance_or_split and node::insert_inner on a node with room (thorough tier) each under its own contract with the callees replaced by '
             'theirs: the token sequences (keys and child pointers) of the nodes touched are rewritten without changing their in-order concatenation, '
             'every moved child is linked back to its new parent at the right position, a new sibling is write-locked and recorded, a modified left '
             'sibling is released by end_write, a split root gets a fresh root and the root pointer is switched, nothing outside the stated frame changes. '
             '(3) Leaf tail of btree::insert (from the upgrade of the leaf lease to the return, cut out as a fragment): the sphere of influence is write-locked and recorded '
             'before rebalance_or_split is called, every lock taken is released, the modified leaf and its direct parent are released by end_write, the root lock by end_write whenever the '
             'root pointer changed, and without a split the key is inserted at idx with the other keys in order. '
             'NOT covered: the descent of btree::insert (lease validation, search result -> idx), hints, insert_inner on a full node, concurrent schedules beyond the lock specification, iteration order, size, chunk partitioning.',
        note='instantiations Key=int and a two-column key; member templates hoisted to free functions and textually instantiated (R7); sortedness used by instantiation '
             'at the ghost index; node level: finite universe of node objects, lock replaced by its specification, sphere of influence assumed through a ghost flag in the node operations and checked at the call site in the leaf tail (chains of up to three nodes; rebalance_or_split replaced there by a summary of its contract), '
             'composition over the height of the tree argued on paper (DESIGN 8.9); the body of btree::insert is outside CBMC\'s C++ front end',
        technique='CBMC function contracts (DFCC) on extracted C++ templates + loop-invariant/variant hooks with ghost index',
        design='DESIGN.md §3 C25'),
    'C28': dict(
        text='Partial. (1) Closure: everything proved for the union-find under C29 (insert is unionNodes; the classes are the forest partition). (2) Storage layer: proof of PiggyList<T>::get/createNode/append and RandomInsertPiggyList<T>::get/insertAt (T = unsigned long) — '
             'addressing is the bijection index+2^16 = (2^16<<bn)+bi, the addressed block is allocated, growth keeps the representation invariant, '
             'returns the old size, leaves existing blocks untouched, append stores the element (loop invariants, all sizes below 2^31-2^16). '
             '(3) Ordering of the sparse->dense map: EqrelMapComparator::operator()/less/equal is a correct three-way comparison of the keys for every pair of 32- and 64-bit domain values. '
             'NOT covered: EquivalenceRelation iterators, size(), partition cache, extendAndInsert, SparseDisjointSet sparse<->dense maps themselves (LambdaBTreeSet, std::function, lambdas: outside the front end).',
        note='sequential contracts (no interference) for the growth functions; SpinLock as ghost mutex; operator new[] modelled as fresh allocation; '
             'index + 2^16 < 2^31 (int shift in get())',
        technique='CBMC function contracts (DFCC) on extracted C++ class templates + loop-invariant hooks + ghost indices',
        design='DESIGN.md §3 C28'),
    'C24': dict(
        text='Numeric fragment. Proof, per operator and for ALL 32-bit operand values in the operator\'s defined domain, that (a) the interpreter\'s '
             'real switch in Engine::execute CASE(IntrinsicOperator)/CASE(Constraint) (macro block preprocessed each run) and (b) the C++ expression '
             'the synthesiser really emits for that operator (emitter text compiled and executed natively each run) both equal a specification written '
             'from the property statement (wrap-around unsigned arithmetic, truncating division, masked shifts, IEEE binary32 arithmetic, C conversions, '
             '0/1 logical results, three-way NaN-aware comparisons); hence interpreter == compiled == spec. 57 functors x 2 engines, 16 constraints x 2, '
             'n-ary MIN/MAX with a loop invariant for any arity; plus lemmas that the BinaryConstraintOps.h tables (strict->weak/not-equal split used by MakeIndex, '
             'negation, direction predicates) agree with the interpreter evaluator for all operands incl. NaN and signed zeros. NOT covered: string operators (symbol table code), RANGE generators, user-defined functors.',
        note='CBMC bit-vector/IEEE-754 semantics trusted; std::pow uninterpreted; ramBitCast replaced by a union cast (R10); sub-expression evaluation '
             'abstracted to an argument array; DIV/MOD specified as C\'s truncating / and % on the 32-bit type; RAM_DOMAIN_SIZE=32',
        technique='CBMC function contracts (DFCC) on the preprocessed interpreter switch and on natively emitted synthesiser expressions; back end per obligation (minisat / z3 / kissat)',
        design='DESIGN.md §3 C24'),
    'C29': dict(
        text='Proof, for every forest of at most N nodes (N=4 quick, 5 thorough; the only bound) and for every number of threads, every schedule and every number '
             'of iterations, of contracts on the real DisjointSet::findNode/updateRoot/unionNodes/sameSet/makeNode/b2p/b2r/pr2b under rely/guarantee with ghost state '
             '(class labels, frozen ranks): every atomic step is a path-halving, root-link or rank-bump step that keeps INV (keys strictly increase along parent '
             'links => no cycle other than root self-loops; forest partition == ghost partition; ranks bounded); every merge joins the classes of the stepping '
             'thread\'s own unionNodes arguments and unionNodes returns only when they are joined (=> final partition == closure of requested unions); sameSet\'s '
             'answer holds at an instant during the call (ghost snapshots). Callers are checked against findNode\'s contract (modular). Plus sequential functional contracts.',
        note='bounded in the node count only; sequential consistency; node count fixed during find/union/sameSet; PiggyList abstracted to an array (its addressing is proved in C28); progress not claimed',
        technique='CBMC function contracts (DFCC, enforce + replace-call-with-contract) on extracted C++ + rely/guarantee ghost monitor + loop-invariant hooks; native exploration replay',
        design='DESIGN.md §3 C29'),
    'C17': dict(
        text='Partial. (1) gzip layer: contracts on the real gzfstreambuf constructor/overflow/sync/close/underflow against a ghost model of the '
             'compressed file (logical output = bytes handed to gzwrite ++ put area, universal ghost index): overflow(c) appends exactly c, sync/close '
             'lose nothing, underflow returns the next stream byte without consuming it, buffer invariant kept; loop-free, all buffer states — quick tier '
             'with the buffer constant scaled 65536->64 (labelled bounded), thorough tier with the real constant. (2) CSV symbol column, BOUNDED: for every '
             'symbol of at most 4 (thorough 6) bytes (all values except NUL/CR/LF) and every single-character delimiter, the real WriteStreamCSV::outputSymbol '
             'followed by the real ReadStreamCSV::nextElement returns the same symbol (RFC 4180 and plain); and a symbol nested in a record (outputSymbol(fieldValue=false) -> nextElement -> '
             'ReadStream::readQuotedSymbol) is read back unchanged. NOT covered: numbers/floats/records/ADTs, '
             'headers, multi-line fields, JSON, SQLite, zlib itself.',
        note='bounded stand-ins are labelled bounded in evidence and never counted as proved; zlib assumed faithful; std::streambuf/std::string/ostream '
             'replaced by scaffolds; two genuine defects found and fixed (97345cb34, a6d1fcd5a)',
        category='other',
        technique='CBMC function contracts (DFCC) on extracted C++ with ghost file model and ghost index; bounded unwinding for the string round trip (bounded stand-in)',
        design='DESIGN.md §3 C17, §8'),
}

NA_PENDING = 'not claimed yet: the contract unit planned in DESIGN.md §3 has not been built'
NOT_APPLICABLE = {
    'C01': 'whole-pipeline least-model correctness over all programs; no per-call contract can state it and the code (AST->RAM translators, Engine) is outside CBMC\'s C++ subset',
    'C02': 'needs compiling and running generated C++ for arbitrary programs (translation validation); only the scalar operator emission is contract-reachable and that is claimed under C24',
    'C03': 'quantifies over thread schedules of OpenMP-parallel generated/interpreted RAM; CBMC has no thread model for it and Parallel.cpp rewrites RAM trees',
    'C04': 'equivalence of AST rewrites over all programs; tree-transformer code (unique_ptr graphs, visitors, lambdas) has no scalar contract and cannot be parsed by goto-cc',
    'C05': 'magic-set transformation equivalence over all programs; same reason as C04',
    'C06': 'RAM rewrite equivalence over all programs; same reason as C04 (its one scalar mechanism, the strict->weak inequality split, is proved as a C24 lemma but does not decide C06)',
    'C07': 'join-order independence is a property of generated RAM for all permutations; no per-function contract expresses it',
    'C08': NA_PENDING,
    'C09': 'meta-property of the translator output; the functions work on AST node pointers and build RAM trees — an index-only abstraction would be a hand-written model',
    'C10': 'choice-domain semantics under all schedules: translator + runtime + schedules; outside the front end and the family',
    'C11': 'subsumption fixpoint bookkeeping is RAM generated by UnitTranslator; same reason as C09',
    'C12': 'lattice @lub sequence is generated RAM; same reason as C09',
    'C13': 'acceptance/rejection of all programs by the semantic checker; AST analyses (SCC graph, type lattice) outside the front end',
    'C14': 'crash-freedom over all byte strings through flex/bison-generated code and the whole compiler; not a per-function contract, not parseable by CBMC',
    'C15': 'print/parse round trip over all ASTs; stream printers and generated parser',
    'C16': 'component instantiation equivalence; AST cloning/renaming code',
    'C17': NA_PENDING,
    'C18': NA_PENDING,
    'C19': 'provenance proof trees for all programs; translator + explain engine',
    'C20': 'profile counts vs relation sizes; logging RAM + JSON event processor',
    'C21': 'embedding API consistency over call histories of generated classes',
    'C22': NA_PENDING,
    'C23': 'size-limit exit condition is generated RAM (generateStratumExitSequence)',
    'C24': NA_PENDING,
    'C25': NA_PENDING,
    'C26': 'BTreeDelete.h erase/merge/rebalance is a 2700-line template with vectors, lambdas and optimistic locking; outside the front end (its in-node search is the BTreeUtil.h code proved under C25)',
    'C27': 'Brie.h is recursive template metaprogramming over lock-free pointer CAS; the only scalar leaves do not carry any clause of the property',
    'C28': NA_PENDING,
    'C29': NA_PENDING,
    'C31': 'ConcurrentInsertOnlyHashMap/ConcurrentFlyweight use variadic templates, virtual nodes, std::pair, unique_ptr, mutex lanes; outside the front end, and the quantifier is schedules over heap-linked buckets',
}


def main():
    checks = []
    for pid in sorted(CLAIMED):
        c = CLAIMED[pid]
        checks.append(dict(
            property_id=pid,
            quick_cmd='./vx check %s --tier quick' % pid,
            thorough_cmd='./vx check %s --tier thorough' % pid,
            evidence_file='/verif/evidence/%s.json' % pid,
            replay_cmd_template='./vx replay %s {path}' % pid,
            engine='vx',
            level_claimed=dict(category=c.get('category', 'proof'), text=c['text'], design_ref=c['design']),
            level_note=c['note'],
            technique=c['technique'],
        ))
    na = [dict(property_id=k, reason=v) for k, v in sorted(NOT_APPLICABLE.items()) if k not in CLAIMED]
    ids = set(CLAIMED) | set(x['property_id'] for x in na)
    assert ids == set('C%02d' % i for i in range(1, 32)), sorted(set('C%02d' % i for i in range(1, 32)) - ids)
    m = dict(
        version=1,
        setup_cmd='python3 tools/setup_check.py',
        hooks=dict(guard='SOUFFLE_VERIF', enable='none needed: all instrumentation is applied to the extracted copy of the sources under /verif/_work, never to /repo',
                   baseline_off_cmd='ctest --test-dir /repo/_build -j8 --timeout 900', source_commits=[], add_only=True),
        engines=[dict(name='vx', path='/verif/vx', serves_properties=sorted(CLAIMED),
                      kind_free_text='contract-based deductive verification: mechanical extraction of the real C++ functions, '
                                     'CBMC 6.11 code contracts (goto-instrument --dfcc) per function, loop invariants via loop-head hooks, '
                                     'rely/guarantee ghost monitors for atomics, native replay of counterexamples on the real headers')],
        checks=checks,
        not_applicable=na,
        notes='See DESIGN.md. exit 2 + UNDECIDED lines mean the verifier could not decide (extraction/front end/solver), never a violation.',
    )
    with open(os.path.join(ROOT, 'MANIFEST.json'), 'w') as f:
        json.dump(m, f, indent=1)
    print('MANIFEST.json: %d checks, %d not applicable' % (len(checks), len(na)))


if __name__ == '__main__':
    main()
