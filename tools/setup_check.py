#!/usr/bin/env python3
"""setup_cmd: nothing to build (python + pre-installed cbmc); verify the tools are present and /repo is where expected."""
import shutil
import subprocess
import sys
import os
missing = [t for t in ('cbmc', 'goto-cc', 'goto-instrument', 'clang++', 'g++', 'z3', 'cvc5', 'kissat') if not shutil.which(t)]
if missing:
    print('missing tools: ' + ' '.join(missing))
    sys.exit(1)
if not os.path.isdir('/repo/src/include/souffle'):
    print('/repo/src/include/souffle not found')
    sys.exit(1)
print(subprocess.run(['cbmc', '--version'], stdout=subprocess.PIPE).stdout.decode().strip())
os.makedirs(os.path.join(os.path.dirname(os.path.dirname(os.path.abspath(__file__))), 'evidence'), exist_ok=True)
print('setup ok')
