// R8 stubs with ASSUMED contracts for the std:: parsing functions (TRUSTED): the value/position/throw behaviour is chosen
// by the harness (contracts.c) and is unconstrained within the function's return type.
#ifndef VX_NUMPARSE_H
#define VX_NUMPARSE_H
#include <string>
#include <stdexcept>
extern "C" {
unsigned long vx_ext_sto(int which, int* throws, unsigned long* pos);
void vx_throw(void);
unsigned vx_ext_ufs(int base, int* throws, unsigned long* pos);
bool vx_ext_isprefix(void);
}
#define VX_STO(name, T, which)                                                   \
    inline T name(const std::string& s, std::size_t* pos = 0, int base = 10) {   \
        int t = 0; unsigned long p = 0;                                          \
        unsigned long v = vx_ext_sto(which, &t, &p);                             \
        if (t) throw std::out_of_range(#name);                                   \
        if (pos) *pos = p;                                                       \
        return (T)v;                                                             \
    }
VX_STO(vx_stoi, int, 1)
VX_STO(vx_stol, long, 2)
VX_STO(vx_stoll, long long, 3)
VX_STO(vx_stoul, unsigned long, 4)
VX_STO(vx_stoull, unsigned long long, 5)
extern "C" double vx_ext_stof(int which, int* throws, unsigned long* pos);
#define VX_STOF(name, T, which)                                                  \
    inline T name(const std::string& s, std::size_t* pos = 0) {                  \
        int t = 0; unsigned long p = 0;                                          \
        double v = vx_ext_stof(which, &t, &p);                                   \
        if (t) throw std::out_of_range(#name);                                   \
        if (pos) *pos = p;                                                       \
        return (T)v;                                                             \
    }
VX_STOF(vx_stof, float, 6)
VX_STOF(vx_stod, double, 7)
VX_STOF(vx_stold, long double, 8)
namespace souffle {
typedef unsigned int vx_ru;
inline vx_ru vx_RamUnsignedFromString(const std::string& s, std::size_t* pos = 0, int base = 10) {
    int t = 0; unsigned long p = 0;
    vx_ru v = vx_ext_ufs(base, &t, &p);
    if (t) throw std::invalid_argument("ufs");
    if (pos) *pos = p;
    return v;
}
inline bool isPrefix(const std::string&, const std::string&) { return vx_ext_isprefix(); }
}
#endif
