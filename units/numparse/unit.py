"""C18 unit: numeric tails of RamUnsignedFromString / RamSignedFromString (StringUtil.h) and ReadStreamCSV::readRamUnsigned."""
import json
import os
import re
import subprocess
from vxlib.extract import Source, strip_comments, ExtractError, blank
from vxlib import ramtypes
from vxlib.cbmc import Harness

HERE = os.path.dirname(os.path.abspath(__file__))
SU = 'src/include/souffle/utility/StringUtil.h'
CSV = 'src/include/souffle/io/ReadStreamCSV.h'


def tail_of(src, fn_regex, log, name):
    """numeric tail = declaration of the result variable + everything after the selection of the text to parse
    (`const std::string& T = C ? A : B;`), to the end of the body.  Names are taken from the source (roles, not spellings):
    returns (tail text, T, position parameter, base parameter, C)."""
    m0 = src.find(fn_regex)
    sig = src.b[m0.start():m0.end()]
    params = re.findall(r'(\w+)\s*(?:=[^,)]*)?\s*[,)]', sig[sig.index('(') + 1:])
    if len(params) != 3:
        raise ExtractError('%s: expected the parameters (text, position, base), found %s' % (name, params))
    body, (bs, be) = src.body(fn_regex)
    bb = src.b[bs:be]
    m = re.search(r'const\s+std::string\s*&\s*(\w+)\s*=\s*(\w+)\s*\?\s*(\w+)\s*:\s*(\w+)\s*;', bb)
    if not m:
        raise ExtractError('%s: the selection `const std::string& T = C ? A : B;` of the text to parse was not found' % name)
    T, C = m.group(1), m.group(2)
    tail = body[m.end():]
    mv = re.search(r'\b(\w+)\s*=\s*std::sto[a-z]+\s*\(\s*%s\s*,' % re.escape(T), bb[m.end():])
    if not mv:
        raise ExtractError('%s: no `V = std::sto*(%s, ...)` after the selection' % (name, T))
    V = mv.group(1)
    d = re.search(r'^[ \t]*((?:[\w:]+[ \t]+)+)%s[ \t]*;' % re.escape(V), bb, re.M)
    if not d:
        raise ExtractError('%s: declaration of the result variable `%s` not found' % (name, V))
    if d.start() < m.end():
        tail = body[d.start():d.end()] + '\n' + tail
    log['%s: roles (text, position, base, binary flag, result variable : type)' % name] = '%s, %s, %s, %s, %s : %s' % (T, params[1], params[2], C, V, re.sub(r'\s+', ' ', d.group(1).strip()))
    # what precedes the tail must not touch the result variable / *position (so the tail starts from their initial state)
    pre = bb[:m.end()]
    pre_wo_decl = pre[:d.start()] + pre[d.end():] if d.start() < m.end() else pre
    pre_wo_rec = re.sub(r'return\s+Ram\w+FromString\([^;]*\);', '', pre_wo_decl)
    if re.search(r'\b%s\b' % re.escape(V), pre_wo_rec) or re.search(r'\*\s*%s|%s\s*\[' % (re.escape(params[1]), re.escape(params[1])), pre_wo_rec):
        raise ExtractError('%s: code before the numeric tail touches the result variable / *position; tail slicing is no longer valid' % name)
    return tail, (T, params[1], params[2], C)


def extract(ctx):
    ramtypes.extract(ctx)
    log = {}
    su = Source(os.path.join(ctx.repo, SU))
    ut, un = tail_of(su, r'inline\s+RamUnsigned\s+RamUnsignedFromString\s*\([^)]*\)\s*\{', log, 'RamUnsignedFromString')
    st, sn = tail_of(su, r'inline\s+RamSigned\s+RamSignedFromString\s*\([^)]*\)\s*\{', log, 'RamSignedFromString')
    fb, _ = su.body(r'inline\s+RamFloat\s+RamFloatFromString\s*\([^)]*\)\s*\{')
    fm = su.find(r'inline\s+RamFloat\s+RamFloatFromString\s*\([^)]*\)\s*\{')
    fsig = su.b[fm.start():fm.end()]
    fparams = tuple(re.findall(r'(\w+)\s*(?:=[^,)]*)?\s*[,)]', fsig[fsig.index('(') + 1:]))
    if len(fparams) != 2:
        raise ExtractError('RamFloatFromString: expected the parameters (text, position), found %s' % (fparams,))

    def rules(t, ret):
        t = strip_comments(t)
        t, n1 = re.subn(r'std::(sto[a-z]+)\(', r'vx_\1(', t)
        t, n2 = re.subn(r'std::numeric_limits<\s*(\w+)\s*>::(min|max|lowest)\(\)', r'vx_limits_\2((\1)0)', t)
        t, n3 = re.subn(r'\bthrow\s+[^;]*;', '{ vx_throw(); return (%s)0; }' % ret, t)
        log['R8 std::sto* -> vx_sto*'] = log.get('R8 std::sto* -> vx_sto*', 0) + n1
        log['R6 numeric_limits'] = log.get('R6 numeric_limits', 0) + n2
        log['R13 throw -> vx_throw(); return'] = log.get('R13 throw -> vx_throw(); return', 0) + n3
        return t
    ut2, st2 = rules(ut, 'RamUnsigned'), rules(st, 'RamSigned')
    ft2 = rules(fb, 'RamFloat')
    if log['R8 std::sto* -> vx_sto*'] < 2:
        raise ExtractError('R8 must fire in both tails')
    text = ('#include <string>\n#include <stdexcept>\n#include <cstddef>\n#include <cassert>\n#include "ramtypes.hpp"\n#include "vx_numparse.h"\nnamespace souffle {\n' +
            'RamUnsigned ustr_tail(const std::string& %s, std::size_t* %s, const int %s, bool %s) {\n' % un + ut2 + '}\n' +
            'RamSigned sstr_tail(const std::string& %s, std::size_t* %s, const int %s, bool %s) {\n' % sn + st2 + '}\n' +
            '// whole body of RamFloatFromString\nRamFloat fstr_body(const std::string& %s, std::size_t* %s) {\n' % fparams + ft2 + '}\n}\n')
    ctx.write('extracted.hpp', text)
    ctx.rewrites.update(log)
    ctx.dropped += [
        'RamUnsignedFromString/RamSignedFromString: everything before the numeric tail (minus-sign rejection, base-0 prefix dispatch, '
        '0b stripping into binaryNumber, selection of tmp): std::string code outside the front end; the slicing is validated by checking '
        'that this prefix does not touch val or *position',
        'readRecord/readADT, the completeness check charactersRead != element.size(), error messages',
    ]
    ctx.fact('StringUtil.h: the numeric tails are guarded only by RAM_DOMAIN_SIZE (default 32)', True)


def harnesses(ctx):
    cpp = os.path.join(HERE, 'wrappers.cpp')
    c = [os.path.join(HERE, 'contracts.c')]
    return [
        Harness('numparse.ustr_tail', 'harness_ustr', cpp=cpp, c=c, enforce='h_ustr_tail', must_have=['postcondition'],
                clause='unsigned literal: accepted iff the parsed value is representable; the stored value is the parsed value',
                funcs=['souffle::RamUnsignedFromString (numeric tail)']),
        Harness('numparse.sstr_tail', 'harness_sstr', cpp=cpp, c=c, enforce='h_sstr_tail', must_have=['postcondition'],
                clause='signed literal: the stored value is the value std::stoi produced (range rule delegated to stoi)',
                funcs=['souffle::RamSignedFromString (numeric tail)']),
        Harness('numparse.fstr', 'harness_fstr', cpp=cpp, c=c, enforce='h_fstr', must_have=['postcondition'],
                clause='float literal: the stored value is the value the std parser produced, and a finite literal is never silently stored as an infinity (range rule)',
                funcs=['souffle::RamFloatFromString']),
    ]


def replay(ctx, h, r, ins, tr):
    """native replay on the REAL header: call souffle::RamUnsignedFromString / RamSignedFromString on the decimal
    rendering of the counterexample value"""
    last = (tr or {}).get('last', {})
    key = {'numparse.fstr': 'in_stod_val', 'numparse.ustr_tail': 'in_stoul_val', 'numparse.sstr_tail': 'in_stoi_val', 'numparse.readRamUnsigned': 'in_ufs_val'}[h.name]
    v = last.get(key)
    if v is None:
        return None, 'no value for %s in the trace' % key
    v = re.sub(r'[uUlLfF]+$', '', str(v)) if h.name != 'numparse.fstr' else str(v).rstrip('fFlL')
    exe = os.path.join(ctx.work, 'replay_numparse')
    p = subprocess.run(['g++', '-std=c++17', '-I', os.path.join(ctx.repo, 'src/include'), os.path.join(HERE, '..', '..', 'replay', 'numparse', 'replay.cpp'), '-o', exe],
                       stdout=subprocess.PIPE, stderr=subprocess.STDOUT)
    if p.returncode != 0:
        return None, 'native replay build failed: ' + p.stdout.decode()[:300]
    mode = {'numparse.fstr': 'f', 'numparse.ustr_tail': 'u', 'numparse.sstr_tail': 'i', 'numparse.readRamUnsigned': 'c'}[h.name]
    q = subprocess.run([exe, mode, v], stdout=subprocess.PIPE, stderr=subprocess.STDOUT)
    out = q.stdout.decode().strip()
    return q.returncode == 1, 'real %s on literal "%s": %s' % ({'f': 'RamFloatFromString', 'u': 'RamUnsignedFromString', 'i': 'RamSignedFromString', 'c': 'ReadStreamCSV unsigned column'}[mode], v, out)


ASSUMPTIONS = [
    'assumed contract of std::stoul/stoull/stoi/stol/stoll: returns the mathematical value of the longest valid prefix in its return type (any value of that type), sets *pos, or throws',
    'a throw from a std:: function ends the path (partial correctness: nothing after it runs in the real code either)',
    'RAM_DOMAIN_SIZE == 32 (the default build)',
]
TRUSTED = ['stubs/string (opaque)', 'stubs/stdexcept', 'stubs/vx_limits.h (cross-checked natively)', 'units/numparse/vx_numparse.h (vx_sto* stubs)',
           'rewrite rules R6, R8, R13 (throw -> flag + return)']

MUTANTS = [
    dict(name='unsigned range check dropped', file=SU, find=r'if \(val > std::numeric_limits<RamUnsigned>::max\(\)\) \{\s*throw std::invalid_argument\("Unsigned number of of bounds"\);\s*\}', repl='', expect=r'numparse\.ustr_tail :: .*postcondition'),
    dict(name='signed uses stol', file=SU, find=r'val = std::stoi\(tmp, position, base\);', repl='val = std::stol(tmp, position, base);', expect=r'numparse\.sstr_tail :: .*postcondition'),
    dict(name='unsigned position += 3', file=SU, find=r'(return RamUnsignedFromString\(str, position\);.*?\*position \+= )2', repl=r'\g<1>3', expect=r'numparse\.ustr_tail :: .*postcondition'),
    dict(name='float parsed as double and narrowed', file=SU, find=r'val = std::stof\(str, position\);', repl='val = std::stod(str, position);', expect=r'numparse\.fstr :: .*postcondition'),
    dict(name='unsigned range check off by one', file=SU, find=r'if \(val > std::numeric_limits<RamUnsigned>::max\(\)\)', repl='if (val > std::numeric_limits<RamSigned>::max())', expect=r'numparse\.ustr_tail :: .*postcondition'),
]
