#include "extracted.hpp"
using namespace souffle;
extern "C" {
unsigned h_ustr_tail(unsigned long* position, int base, bool parsingBinary) {
    std::string tmp;
    return ustr_tail(tmp, (std::size_t*)position, base, parsingBinary);
}
int h_sstr_tail(unsigned long* position, int base, bool parsingBinary) {
    std::string tmp;
    return sstr_tail(tmp, (std::size_t*)position, base, parsingBinary);
}
float h_fstr(unsigned long* position) {
    std::string str;
    return fstr_body(str, (std::size_t*)position);
}
unsigned h_readRamUnsigned(unsigned long* charactersRead, unsigned long element_size) {
    std::string element;
    element.n = element_size;
    CSVScaffold s;
    return s.readRamUnsigned(element, *(std::size_t*)charactersRead);
}
}
