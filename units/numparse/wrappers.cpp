#include "extracted.hpp"
using namespace souffle;
extern "C" {
unsigned h_ustr_tail(unsigned long* position, int base, bool parsingBinary) {
    std::string tmp;
    return ustr_tail(tmp, (std::size_t*)position, base, parsingBinary);
}
int h_sstr_tail(unsigned long* position, int base, bool parsingBinary) {
    std::string tmp;
    return sstr_tail(tmp, (std::size_t*)position, base, parsingBinary);
}
float h_fstr(unsigned long* position) {
    std::string str;
    return fstr_body(str, (std::size_t*)position);
}
}
