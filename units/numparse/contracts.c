/* C18 — numeric tails: "a field is accepted only if its value is representable in the column's type; never silently
 * stores a different value than the one written".  The value written is what the std:: parser computed (in_*_val). */
#include <stdint.h>
#include <stddef.h>
unsigned long in_stoul_val, in_stoul_pos; _Bool in_stoul_throws;   /* what std::stoul does on this input (any) */
long in_stoi_val; unsigned long in_stoi_pos; _Bool in_stoi_throws;
unsigned in_ufs_val; unsigned long in_ufs_pos; _Bool in_ufs_throws; int g_ufs_base;
_Bool in_pos_null, in_binary;
unsigned long g_pos;          /* the caller's position cell */
int g_threw, g_calls, g_which;
_Bool nondet_bool(void);

float in_stof_val; double in_stod_val; unsigned long in_stof_pos; _Bool in_stof_throws;
/* assumed contract of std::stof: the correctly rounded float of a literal within float range (never an infinity unless the
   literal IS an infinity), or throws out_of_range; std::stod likewise for double */
double vx_ext_stof(int which, int *throws, unsigned long *pos) {
    g_calls++; g_which = which; *throws = in_stof_throws; *pos = in_stof_pos;
    return which == 6 ? (double)in_stof_val : in_stod_val;
}
void vx_throw(void) { g_threw = 1; }
unsigned long vx_ext_sto(int which, int *throws, unsigned long *pos) {
    g_calls++; g_which = which;
    if (which == 4 || which == 5) { *throws = in_stoul_throws; *pos = in_stoul_pos; return in_stoul_val; }
    *throws = in_stoi_throws; *pos = in_stoi_pos; return (unsigned long)in_stoi_val;
}
unsigned vx_ext_ufs(int base, int *throws, unsigned long *pos) {
    g_calls++; g_ufs_base = base; *throws = in_ufs_throws; *pos = in_ufs_pos; return in_ufs_val;
}
_Bool vx_ext_isprefix(void) { return nondet_bool(); }

#define POS_OK(P) ((position == NULL) || (position == &g_pos && g_pos == (P) + (parsingBinary ? 2ul : 0ul)))

/* unsigned: normal return  <=>  the parsed value fits 32 bits; then result == parsed value, position as std + 2 for a stripped 0b */
unsigned h_ustr_tail(unsigned long *position, int base, _Bool parsingBinary)
__CPROVER_requires((position == NULL || position == &g_pos) && g_threw == 0 && g_calls == 0 && !in_stoul_throws)
__CPROVER_requires(in_stoul_pos < (1ul << 62))
__CPROVER_ensures(g_calls == 1)
__CPROVER_ensures((g_threw != 0) == (in_stoul_val > 0xFFFFFFFFul))
__CPROVER_ensures(g_threw == 0 ==> (unsigned long)__CPROVER_return_value == in_stoul_val)
__CPROVER_ensures(g_threw == 0 ==> POS_OK(in_stoul_pos))
__CPROVER_assigns(g_threw, g_calls, g_which, g_pos);

/* signed: std::stoi/stoll already enforce the range (they throw std::out_of_range); the tail must keep the value */
int h_sstr_tail(unsigned long *position, int base, _Bool parsingBinary)
__CPROVER_requires((position == NULL || position == &g_pos) && g_threw == 0 && g_calls == 0 && !in_stoi_throws)
__CPROVER_requires(in_stoi_pos < (1ul << 62))
__CPROVER_ensures(g_calls == 1 && g_threw == 0)
__CPROVER_ensures(g_which == 1 ==> (long)__CPROVER_return_value == (long)(int)in_stoi_val)
__CPROVER_ensures(g_which != 1 ==> (long)__CPROVER_return_value == in_stoi_val)
__CPROVER_ensures(POS_OK(in_stoi_pos))
__CPROVER_assigns(g_threw, g_calls, g_which, g_pos);

/* float: the value stored is the parsed value; a finite parsed value is never stored as an infinity (that would be a
   literal outside the float range accepted silently); NaN literals stay NaN */
#define ISINF(x) ((x) == (x) && ((x) - (x)) != ((x) - (x)))
float h_fstr(unsigned long *position)
__CPROVER_requires((position == NULL || position == &g_pos) && g_threw == 0 && g_calls == 0 && !in_stof_throws && in_stof_pos < (1ul << 62))
__CPROVER_ensures(g_calls == 1 && g_threw == 0)
__CPROVER_ensures(g_which == 6 ==> (__CPROVER_return_value == in_stof_val || (in_stof_val != in_stof_val && __CPROVER_return_value != __CPROVER_return_value)))
__CPROVER_ensures(g_which != 6 ==> (!ISINF(__CPROVER_return_value) || ISINF(in_stod_val)))
__CPROVER_ensures(g_which != 6 ==> ((in_stod_val != in_stod_val) == (__CPROVER_return_value != __CPROVER_return_value)))
__CPROVER_ensures(position == NULL || g_pos == in_stof_pos)
__CPROVER_assigns(g_threw, g_calls, g_which, g_pos);

#ifdef VX_CANARY
#define CANARY __CPROVER_assert(0, "canary: reachable after the call under contract")
#else
#define CANARY
#endif
int nondet_int(void); unsigned long nondet_ulong(void);
static void inputs(void) { in_stoul_val = nondet_ulong(); in_stoul_pos = nondet_ulong(); in_stoul_throws = nondet_bool(); in_stoi_val = (long)nondet_ulong(); in_stoi_pos = nondet_ulong(); in_stoi_throws = nondet_bool(); in_ufs_val = (unsigned)nondet_int(); in_ufs_pos = nondet_ulong(); in_ufs_throws = nondet_bool(); in_pos_null = nondet_bool(); in_binary = nondet_bool(); g_pos = nondet_ulong(); float f; double d; in_stof_val = f; in_stod_val = d; in_stof_pos = nondet_ulong(); in_stof_throws = nondet_bool(); }
void harness_ustr(void) { inputs(); g_threw = 0; g_calls = 0; h_ustr_tail(in_pos_null ? NULL : &g_pos, nondet_int(), in_binary); CANARY; }
void harness_sstr(void) { inputs(); g_threw = 0; g_calls = 0; h_sstr_tail(in_pos_null ? NULL : &g_pos, nondet_int(), in_binary); CANARY; }
void harness_fstr(void) { inputs(); g_threw = 0; g_calls = 0; h_fstr(in_pos_null ? NULL : &g_pos); CANARY; }
