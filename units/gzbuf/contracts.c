/* C17 (gzip layer) — buffering logic of gzfstreambuf against a ghost model of the compressed file.
 *   logical output  = bytes handed to gzwrite so far (g_wlen of them)  ++  put area [pbase, pptr)
 *   logical input   = the decompressed stream; g_roff bytes have been delivered by gzread; [gptr, egptr) are the unread ones
 * in_k is a GHOST INDEX into the logical output / input: a statement about byte in_k is a statement about every byte. */
#include <stddef.h>
#include <stdlib.h>
#include <string.h>
#ifndef VX_BUFSZ
#define VX_BUFSZ 65536
#endif
#define BUFSZ ((unsigned long)VX_BUFSZ)
#define RESERVE 16ul
#define MODE_IN 8
#define MODE_OUT 16
/* packed: CBMC's C++ front end lays out class members without alignment padding (checked by the layout harness) */
struct __attribute__((packed)) GZ { char *pb, *pp, *pe, *gb, *gp, *ge; char buffer[BUFSZ]; void *fileHandle; _Bool isOpen; int mode; } g_o;

unsigned long g_wlen; char g_wbyte; _Bool g_wfail, g_closed;          /* output side ghost */
unsigned long g_roff; char in_rbyte; unsigned long g_rgot; _Bool g_rcalled;   /* input side ghost */
unsigned long in_k;
long g_offs[6]; _Bool g_c_open; int g_c_mode;
int nondet_int(void); unsigned long nondet_ulong(void); _Bool nondet_bool(void); char nondet_char(void);

/* recorded observation (not claimed as a violation of C17): underflow() calls memcpy on regions that can overlap when a short read
   follows a full put-back area (formally undefined; dst < src, 16 bytes).  It is modelled as memmove so that the overlap does not
   hide the functional obligations. */
void vx_memcpy(void *dst, const void *src, unsigned long n) { memmove(dst, src, n); }
/* zlib, assumed: append buf[0..len) or fail */
int gzwrite(void *f, const void *buf, unsigned len) {
    __CPROVER_assert(f == g_o.fileHandle, "gzwrite on this stream's file");
    __CPROVER_assert(len == 0 || __CPROVER_r_ok(buf, len), "gzwrite reads inside the buffer");
    if (nondet_bool()) { g_wfail = 1; return (int)len - 1; }
    if (g_wlen <= in_k && in_k - g_wlen < len) g_wbyte = ((const char *)buf)[in_k - g_wlen];
    g_wlen += len;
    return (int)len;
}
/* zlib, assumed: deliver the next m <= len bytes of the stream (m == 0: end of file) */
int gzread(void *f, void *buf, unsigned len) {
    __CPROVER_assert(f == g_o.fileHandle, "gzread on this stream's file");
    __CPROVER_assert(len > 0 && __CPROVER_w_ok(buf, len), "gzread writes inside the buffer");
    unsigned m = (unsigned)nondet_int();
    __CPROVER_assume(m <= len);
    g_rcalled = 1; g_rgot = m;
    for (unsigned i = 0; i < 1; i++) { /* content: arbitrary, except that stream byte in_k has the value in_rbyte */
        char *b = (char *)buf;
        if (g_roff <= in_k && in_k - g_roff < m) b[in_k - g_roff] = in_rbyte;
    }
    g_roff += m;
    return (int)m;
}
int gzclose(void *f) { __CPROVER_assert(f == g_o.fileHandle, "gzclose on this stream's file"); g_closed = 1; return nondet_int(); }

#define OFF(p) ((long)((p) - g_o.buffer))
#define INB(p) (__CPROVER_same_object((p), g_o.buffer))
/* buffer invariant: put area = [buffer, buffer + BUFSZ - 1) with one spare byte for overflow(c); get area behind the reserve */
static _Bool INV(void) {
    return INB(g_o.pb) && INB(g_o.pp) && INB(g_o.pe) && OFF(g_o.pb) == 0 && OFF(g_o.pe) == (long)BUFSZ - 1 && OFF(g_o.pp) >= 0 && OFF(g_o.pp) <= (long)BUFSZ - 1 &&
           INB(g_o.gb) && INB(g_o.gp) && INB(g_o.ge) && OFF(g_o.gb) >= 0 && OFF(g_o.gb) <= OFF(g_o.gp) && OFF(g_o.gp) <= OFF(g_o.ge) && OFF(g_o.ge) <= (long)BUFSZ &&
           OFF(g_o.gp) >= (long)RESERVE && g_roff >= (unsigned long)(OFF(g_o.ge) - OFF(g_o.gp));
}
static unsigned long out_len(void) { return g_wlen + (unsigned long)OFF(g_o.pp); }
static char out_byte(unsigned long k) { return k < g_wlen ? g_wbyte : g_o.buffer[k - g_wlen]; }   /* only evaluated at k == in_k */
unsigned long g_len0; char g_byte0;

/* constructor */
void h_gz_construct(long *offs, _Bool *isOpen, int *mode)
__CPROVER_requires(offs == g_offs && isOpen == &g_c_open && mode == &g_c_mode)
__CPROVER_ensures(g_offs[0] == 0 && g_offs[1] == 0 && g_offs[2] == (long)BUFSZ - 1)
__CPROVER_ensures(g_offs[3] == (long)RESERVE && g_offs[4] == (long)RESERVE && g_offs[5] == (long)RESERVE)
__CPROVER_ensures(!g_c_open && g_c_mode == MODE_IN)
__CPROVER_assigns(g_offs, g_c_open, g_c_mode);

/* overflow(c): the logical output becomes old ++ [c]  (c != EOF), or stays (c == EOF); EOF on failure / wrong mode */
int h_gz_overflow(void *o, int c)
__CPROVER_requires(o == (void *)&g_o && INV() && g_wlen < (1ul << 60) && g_roff < (1ul << 60) && (c == -1 || (c >= 0 && c <= 255)) && !g_wfail)
__CPROVER_requires(g_len0 == out_len() && (in_k >= g_len0 || g_byte0 == out_byte(in_k)))
__CPROVER_ensures((!g_o.isOpen || (g_o.mode & MODE_OUT) == 0) ==> (__CPROVER_return_value == -1 && out_len() == g_len0))
__CPROVER_ensures((g_o.isOpen && (g_o.mode & MODE_OUT) != 0 && g_wfail) ==> __CPROVER_return_value == -1)
__CPROVER_ensures((g_o.isOpen && (g_o.mode & MODE_OUT) != 0 && !g_wfail) ==> (__CPROVER_return_value == c && out_len() == g_len0 + (c != -1 ? 1ul : 0ul) && OFF(g_o.pp) == 0))
__CPROVER_ensures((g_o.isOpen && (g_o.mode & MODE_OUT) != 0 && !g_wfail && in_k < g_len0) ==> out_byte(in_k) == g_byte0)
__CPROVER_ensures((g_o.isOpen && (g_o.mode & MODE_OUT) != 0 && !g_wfail && c != -1 && in_k == g_len0) ==> out_byte(in_k) == (char)c)
__CPROVER_ensures(g_wfail || INV())
__CPROVER_assigns(g_o.pp, g_o.buffer, g_wlen, g_wbyte, g_wfail);

/* sync(): logical output unchanged, put area empty */
int h_gz_sync(void *o)
__CPROVER_requires(o == (void *)&g_o && INV() && g_wlen < (1ul << 60) && g_roff < (1ul << 60) && !g_wfail)
__CPROVER_requires(g_len0 == out_len() && (in_k >= g_len0 || g_byte0 == out_byte(in_k)))
__CPROVER_ensures(g_wfail ? __CPROVER_return_value == -1 : (__CPROVER_return_value == 0 && OFF(g_o.pp) == 0 && out_len() == g_len0 && INV()))
__CPROVER_ensures((!g_wfail && in_k < g_len0) ==> out_byte(in_k) == g_byte0)
__CPROVER_assigns(g_o.pp, g_wlen, g_wbyte, g_wfail);

/* close(): everything written before is in the file when it is closed */
_Bool h_gz_close(void *o)
__CPROVER_requires(o == (void *)&g_o && INV() && g_wlen < (1ul << 60) && g_roff < (1ul << 60) && !g_wfail && !g_closed)
__CPROVER_requires(g_len0 == out_len() && (in_k >= g_len0 || g_byte0 == out_byte(in_k)))
__CPROVER_ensures(!g_o.isOpen)
__CPROVER_ensures((__CPROVER_old(g_o.isOpen) && !g_wfail) ==> (g_closed && g_wlen == g_len0 && (in_k >= g_len0 || g_wbyte == g_byte0)))
__CPROVER_ensures(!__CPROVER_old(g_o.isOpen) ==> (!__CPROVER_return_value && !g_closed && g_wlen == __CPROVER_old(g_wlen)))
__CPROVER_assigns(g_o.pp, g_o.isOpen, g_wlen, g_wbyte, g_wfail, g_closed);

/* underflow(): next unread byte of the stream, not consumed; stream byte in_k, if it is the one returned, has value in_rbyte */
int h_gz_underflow(void *o)
__CPROVER_requires(o == (void *)&g_o && INV() && g_wlen < (1ul << 60) && g_roff < (1ul << 60) && !g_rcalled)
__CPROVER_requires(g_len0 == g_roff - (unsigned long)(OFF(g_o.ge) - OFF(g_o.gp)))         /* logical read position */
__CPROVER_requires(!(OFF(g_o.gp) < OFF(g_o.ge) && in_k == g_len0) || *g_o.gp == in_rbyte)   /* the buffered byte in_k, if any, is the stream's */
__CPROVER_ensures((!g_o.isOpen || (g_o.mode & MODE_IN) == 0) ==> __CPROVER_return_value == -1)
__CPROVER_ensures(__CPROVER_return_value != -1 ==> (INV() && OFF(g_o.gp) < OFF(g_o.ge) && __CPROVER_return_value == (int)(unsigned char)*g_o.gp))
__CPROVER_ensures(__CPROVER_return_value != -1 ==> g_roff - (unsigned long)(OFF(g_o.ge) - OFF(g_o.gp)) == g_len0)     /* position unchanged: nothing skipped */
__CPROVER_ensures((__CPROVER_return_value != -1 && in_k == g_len0) ==> __CPROVER_return_value == (int)(unsigned char)in_rbyte)
__CPROVER_ensures((g_o.isOpen && (g_o.mode & MODE_IN) != 0 && __CPROVER_return_value == -1) ==> (g_rcalled && g_rgot == 0))   /* EOF only at end of file */
__CPROVER_assigns(g_o.gb, g_o.gp, g_o.ge, g_o.buffer, g_roff, g_rgot, g_rcalled);

unsigned long h_gz_off(int k);

#ifdef VX_CANARY
#define CANARY __CPROVER_assert(0, "canary: reachable after the call under contract")
#else
#define CANARY
#endif
static void any_obj(void) {
    struct GZ h; g_o = h;
    unsigned long a = nondet_ulong(), b = nondet_ulong(), c = nondet_ulong(), d = nondet_ulong();
    __CPROVER_assume(a <= BUFSZ - 1 && b <= BUFSZ && c <= BUFSZ && d <= BUFSZ);
    g_o.pb = g_o.buffer; g_o.pp = g_o.buffer + a; g_o.pe = g_o.buffer + (BUFSZ - 1);
    g_o.gb = g_o.buffer + b; g_o.gp = g_o.buffer + c; g_o.ge = g_o.buffer + d;
    g_wlen = nondet_ulong(); g_wbyte = nondet_char(); g_wfail = 0; g_closed = 0;
    g_roff = nondet_ulong(); in_rbyte = nondet_char(); g_rcalled = 0; g_rgot = 0;
    in_k = nondet_ulong();
    __CPROVER_assume(INV() && g_wlen < (1ul << 60) && g_roff < (1ul << 60));   /* fewer than 2^60 bytes per stream */
    g_len0 = out_len(); if (in_k < g_len0) g_byte0 = out_byte(in_k);
}
void harness_construct(void) { h_gz_construct(g_offs, &g_c_open, &g_c_mode); CANARY; }
void harness_overflow(void) { any_obj(); h_gz_overflow(&g_o, nondet_int()); CANARY; }
void harness_sync(void) { any_obj(); h_gz_sync(&g_o); CANARY; }
void harness_close(void) { any_obj(); h_gz_close(&g_o); CANARY; }
void harness_underflow(void) { any_obj(); g_len0 = g_roff - (unsigned long)(OFF(g_o.ge) - OFF(g_o.gp)); h_gz_underflow(&g_o); CANARY; }
void harness_layout(void) {
    __CPROVER_assert(h_gz_off(0) == offsetof(struct GZ, pb) && h_gz_off(1) == offsetof(struct GZ, pp) && h_gz_off(2) == offsetof(struct GZ, pe) &&
                     h_gz_off(3) == offsetof(struct GZ, gb) && h_gz_off(4) == offsetof(struct GZ, gp) && h_gz_off(5) == offsetof(struct GZ, ge) &&
                     h_gz_off(6) == offsetof(struct GZ, buffer) && h_gz_off(7) == offsetof(struct GZ, fileHandle) &&
                     h_gz_off(8) == offsetof(struct GZ, isOpen) && h_gz_off(9) == offsetof(struct GZ, mode), "layout: gzfstreambuf fields");
    CANARY;
}
