#include "extracted.hpp"
using namespace souffle::gzfstream::internal;
extern "C" {
// default construction: report the area pointers as offsets into the object's own buffer
void h_gz_construct(long* offs, bool* isOpen, int* mode) {
    gzfstreambuf t;
    offs[0] = t.vx_pb - t.buffer; offs[1] = t.vx_pp - t.buffer; offs[2] = t.vx_pe - t.buffer;
    offs[3] = t.vx_gb - t.buffer; offs[4] = t.vx_gp - t.buffer; offs[5] = t.vx_ge - t.buffer;
    *isOpen = t.isOpen; *mode = t.mode;
}
int h_gz_overflow(void* o, int c) { return ((gzfstreambuf*)o)->overflow(c); }
int h_gz_sync(void* o) { return ((gzfstreambuf*)o)->sync(); }
bool h_gz_close(void* o) { return ((gzfstreambuf*)o)->close() != 0; }
int h_gz_underflow(void* o) { return ((gzfstreambuf*)o)->underflow(); }
unsigned long h_gz_off(int k) {
    gzfstreambuf* p = 0;
    switch (k) {
        case 0: return (unsigned long)&p->vx_pb;
        case 1: return (unsigned long)&p->vx_pp;
        case 2: return (unsigned long)&p->vx_pe;
        case 3: return (unsigned long)&p->vx_gb;
        case 4: return (unsigned long)&p->vx_gp;
        case 5: return (unsigned long)&p->vx_ge;
        case 6: return (unsigned long)&p->buffer;
        case 7: return (unsigned long)&p->fileHandle;
        case 8: return (unsigned long)&p->isOpen;
        case 9: return (unsigned long)&p->mode;
        default: return sizeof(gzfstreambuf);
    }
}
}
