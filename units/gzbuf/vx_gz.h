// Scaffold for souffle::gzfstream::internal::gzfstreambuf (TRUSTED): std::streambuf reduced to its put/get area pointers,
// std::ios_base open modes, zlib's gzwrite/gzread/gzclose as functions defined by the contract file (ghost file model).
#ifndef VX_GZ_H
#define VX_GZ_H
#include <cstddef>
#define EOF (-1)
#define Z_OK 0
typedef void* gzFile;
extern "C" {
int gzwrite(gzFile f, const void* buf, unsigned len);
int gzread(gzFile f, void* buf, unsigned len);
int gzclose(gzFile f);
void vx_memcpy(void* dst, const void* src, unsigned long n);
}
namespace std {
struct ios_base {
    typedef int openmode;
    static const int in = 8;
    static const int out = 16;
};
struct ios {
    typedef int openmode;
    static const int in = 8;
    static const int out = 16;
};
struct vx_traits {
    static int to_int_type(char c) { return (int)(unsigned char)c; }
    static int not_eof(int c) { if (c == EOF) return 0; return c; }
};
struct streambuf {
    typedef int int_type;
    typedef vx_traits traits_type;
    char* vx_pb; char* vx_pp; char* vx_pe;   // put area: pbase, pptr, epptr
    char* vx_gb; char* vx_gp; char* vx_ge;   // get area: eback, gptr, egptr
    char* pbase() const { return vx_pb; }
    char* pptr() const { return vx_pp; }
    char* epptr() const { return vx_pe; }
    char* eback() const { return vx_gb; }
    char* gptr() const { return vx_gp; }
    char* egptr() const { return vx_ge; }
    void setp(char* b, char* e) { vx_pb = b; vx_pp = b; vx_pe = e; }
    void pbump(int n) { vx_pp = vx_pp + n; }
    void setg(char* b, char* c, char* e) { vx_gb = b; vx_gp = c; vx_ge = e; }
    void gbump(int n) { vx_gp = vx_gp + n; }
};
}
#endif
