"""C17 (gzip layer): the buffering logic of souffle::gzfstream::internal::gzfstreambuf — constructor, overflow, sync, underflow,
close — against a ghost model of the compressed file (zlib itself is external and assumed)."""
import os
import re
from vxlib.extract import Source, strip_comments, ExtractError, blank, match_brace
from vxlib import rewrite as rw
from vxlib.cbmc import Harness

HERE = os.path.dirname(os.path.abspath(__file__))
GZ = 'src/include/souffle/io/gzfstream.h'


def member(cls, regex):
    b = blank(cls)
    m = re.search(regex, b)
    if not m:
        raise ExtractError('gzfstreambuf member /%s/ not found' % regex)
    ob = b.find('{', m.end() - 1)
    cb = match_brace(b, ob)
    return cls[m.start():cb + 1]


def extract(ctx):
    src = Source(os.path.join(ctx.repo, GZ))
    log = {}
    cls, _ = src.block(r'class\s+gzfstreambuf\s*:\s*public\s+std::streambuf\s*\{')
    cls = strip_comments(cls)
    b = blank(cls)
    m1 = re.search(r'static\s+constexpr\s+std::size_t\s+bufferSize', b)
    m2 = re.search(r'std::ios_base::openmode\s+mode\s*=[^;]*;', b)
    if not m1 or not m2:
        raise ExtractError('gzfstreambuf data members not found')
    fields = cls[m1.start():m2.end()]
    ctx.fact('gzfstream.h: bufferSize is 65536 and reserveSize 16',
             re.search(r'bufferSize\s*=\s*65536;', fields) is not None and re.search(r'reserveSize\s*=\s*16;', fields) is not None)
    ctx.fact('gzfstream.h: default member initialisers isOpen = false, mode = std::ios_base::in, fileHandle = {}',
             re.search(r'bool\s+isOpen\s*=\s*false;', fields) is not None and re.search(r'mode\s*=\s*std::ios_base::in;', fields) is not None
             and re.search(r'gzFile\s+fileHandle\s*=\s*\{\};', fields) is not None)
    parts = [member(cls, r'gzfstreambuf\s*\(\s*\)\s*\{'), member(cls, r'gzfstreambuf\*\s+close\s*\(\s*\)\s*\{'), member(cls, r'bool\s+is_open\s*\(\s*\)\s*const\s*\{'),
             member(cls, r'int_type\s+overflow\s*\('), member(cls, r'int_type\s+underflow\s*\('), member(cls, r'int\s+sync\s*\(\s*\)')]
    text = 'namespace souffle {\nnamespace gzfstream {\nnamespace internal {\nstruct gzfstreambuf : public std::streambuf {\n' + '\n'.join(parts) + '\n' + fields + '\n};\n}\n}\n}\n'
    text, n = re.subn(r'\)\s*override\s*\{', ') {', text)
    log['R19 `override` deleted (the scaffold base has no virtual functions; calls are direct)'] = n
    if n < 3:
        raise ExtractError('R19 must fire for overflow, underflow, sync')
    text, n2 = re.subn(r'\btraits_type::', 'std::vx_traits::', text)
    log['R8 traits_type:: -> std::vx_traits:: (CBMC does not resolve a typedef as a scope)'] = n2
    text, n3 = re.subn(r'(?<![\w:])memcpy\(', 'vx_memcpy(', text)
    log['R8 memcpy -> vx_memcpy (defined in C with the C library model; redeclaring memcpy in the C++ unit turns it into havoc)'] = n3
    # R4b: scalar default member initialisers into the constructor; array/aggregate ones ({}): left nondeterministic (over-approximation)
    text = rw.r4b_nsdmi(text, 'gzfstreambuf', log)
    text = re.sub(r'char\s+buffer\[bufferSize\]\s*=\s*\{\};', 'char buffer[bufferSize];', text)
    text = re.sub(r'gzFile\s+fileHandle\s*=\s*\{\};', 'gzFile fileHandle;', text)
    log['R4 aggregate initialisers `= {}` of buffer / fileHandle dropped (object state is nondeterministic under the invariant)'] = 2
    # R20 (scaling): the buffer constant becomes the macro VX_BUFSZ (default: the real value).  Harnesses that define a smaller value
    # are labelled bounded; the logic is uniform in the constant (static fact: reserveSize < bufferSize).
    text, n20 = re.subn(r'bufferSize\s*=\s*65536;', 'bufferSize = VX_BUFSZ;', text)
    log['R20 bufferSize = 65536 -> VX_BUFSZ (macro; 65536 unless a harness scales it)'] = n20
    if n20 != 1:
        raise ExtractError('R20 did not fire exactly once')
    ctx.write('extracted.hpp', '#ifndef VX_BUFSZ\n#define VX_BUFSZ 65536\n#endif\n#include "vx_gz.h"\n' + text)
    ctx.rewrites.update(log)
    ctx.dropped += ['gzfstreambuf::open (std::string, gzopen), destructor, move constructor; class gzfstream (std::ios plumbing)',
                    'zlib (gzwrite/gzread/gzclose/inflate/deflate): external library, assumed to store and return bytes faithfully']


def harnesses(ctx):
    cpp = os.path.join(HERE, 'wrappers.cpp')
    c = [os.path.join(HERE, 'contracts.c')]
    G = 'souffle::gzfstream::internal::gzfstreambuf::'
    quick = ctx.tier == 'quick'
    hs = [
        Harness('gzbuf.layout', 'harness_layout', cpp=cpp, c=c, unwind=None, must_have=['layout'], clause='C mirror struct has the layout of the extracted class'),
        Harness('gzbuf.construct', 'harness_construct', cpp=cpp, c=c, enforce='h_gz_construct', unwind=None, must_have=['postcondition'], object_bits=10,
                clause='the constructor establishes the buffer invariant (one spare byte behind the put area, empty get area after the reserve)', funcs=[G + 'gzfstreambuf()']),
        Harness('gzbuf.overflow', 'harness_overflow', cpp=cpp, c=c, enforce='h_gz_overflow', unwind=None, must_have=['postcondition'], object_bits=10,
                clause='overflow(c) consumes c: logical output (bytes handed to gzwrite ++ put area) grows by exactly c; nothing lost, duplicated or reordered', funcs=[G + 'overflow']),
        Harness('gzbuf.sync', 'harness_sync', cpp=cpp, c=c, enforce='h_gz_sync', unwind=None, must_have=['postcondition'], object_bits=10,
                clause='sync() flushes the put area: logical output unchanged, put area empty', funcs=[G + 'sync']),
        Harness('gzbuf.close', 'harness_close', cpp=cpp, c=c, enforce='h_gz_close', unwind=None, must_have=['postcondition'], object_bits=10,
                clause='close() flushes everything that was written before closing', funcs=[G + 'close', G + 'is_open']),
        Harness('gzbuf.underflow', 'harness_underflow', cpp=cpp, c=c, enforce='h_gz_underflow', unwind=None, must_have=['postcondition'], object_bits=10,
                clause='underflow() returns the next byte of the decompressed stream without consuming it and keeps the buffer invariant', funcs=[G + 'underflow']),
    ]
    for h in hs:
        # thorough: the real constant 65536 for layout/constructor/sync/close (decided in minutes); overflow/underflow index the buffer
        # symbolically and exceed an hour at 65536 on every back end, so they are scaled to 1024 / 256 there (64 in the quick tier)
        if quick:
            h.defines = list(h.defines) + ['VX_BUFSZ=64']
            h.bounded = {'buffer_size': 64, 'note': 'gzfstreambuf::bufferSize scaled from 65536 to 64 (R20)'}
        elif h.name in ('gzbuf.overflow', 'gzbuf.underflow'):
            # (underflow at 1024 exhausts the 8 GB solver limit: 256 there)
            sz = 1024 if h.name == 'gzbuf.overflow' else 256
            h.defines = list(h.defines) + ['VX_BUFSZ=%d' % sz]
            h.bounded = {'buffer_size': sz, 'note': 'gzfstreambuf::bufferSize scaled from 65536 to %d (R20)' % sz}
            h.timeout = 3400
        else:
            h.timeout = 3400
    return hs


ASSUMPTIONS = [
    'zlib stores and returns bytes faithfully: gzwrite(f, buf, n) appends buf[0..n) to the file or fails; gzread(f, buf, n) delivers the next m <= n bytes',
    'std::streambuf reduced to its six area pointers (setp/pbump/setg/pbase/pptr/epptr/eback/gptr/egptr); the std::ostream/istream layers that call overflow/underflow/sync are not verified',
    'the byte-level claim is made through a ghost index: a statement about logical byte k for arbitrary k',
]
TRUSTED = ['units/gzbuf/vx_gz.h', 'C mirror struct of the class layout (checked by the layout harness)', 'rewrite rules R4,R4b,R11,R19']

MUTANTS = [
    dict(name='overflow forgets to store c', file=GZ, find=r'\*pptr\(\) = c;\s*pbump\(1\);', repl='pbump(1);', expect=r'gzbuf\.overflow'),
    dict(name='put area uses the whole buffer', file=GZ, find=r'setp\(buffer, buffer \+ \(bufferSize - 1\)\);', repl='setp(buffer, buffer + bufferSize);', expect=r'gzbuf\.(construct|overflow)'),
    dict(name='sync does not rewind', file=GZ, find=r'(int sync\(\) override \{.*?)pbump\(-toWrite\);', repl=r'\1', expect=r'gzbuf\.(sync|close)'),
    dict(name='underflow keeps reserve+1 putback', file=GZ, find=r'if \(charsPutBack > reserveSize\) \{\s*charsPutBack = reserveSize;', repl='if (charsPutBack > reserveSize + 1) {\n            charsPutBack = reserveSize + 1;', expect=r'gzbuf\.underflow'),
]


def replay(ctx, h, r, ins, tr):
    """byte-stream round trip through the real ogzfstream / igzfstream (real zlib), crossing the 64 KiB buffer several times"""
    import subprocess
    exe = os.path.join(ctx.work, 'replay_gz')
    p = subprocess.run(['g++', '-std=c++17', '-I', os.path.join(ctx.repo, 'src/include'), os.path.join(HERE, '..', '..', 'replay', 'gzbuf', 'replay.cpp'), '-lz', '-o', exe],
                       stdout=subprocess.PIPE, stderr=subprocess.STDOUT)
    if p.returncode != 0:
        return None, 'native replay build failed: ' + p.stdout.decode()[-400:]
    q = subprocess.run([exe], stdout=subprocess.PIPE, stderr=subprocess.STDOUT, cwd=ctx.work)
    return q.returncode == 1, 'real gzfstream.h + zlib: ' + q.stdout.decode().strip()[-300:]
