#include "extracted_tail.hpp"
using namespace souffle;
using namespace souffle::detail;
extern "C" {
// the node operations' wrappers exist in this unit only so that the extracted node code links; rebalance_or_split is REPLACED by its summary contract
void h_split(void* t, void* rootp, void* rlock, int idx, void* vec) { ((node*)t)->split((node**)rootp, *(lock_type*)rlock, idx, *(vx_vec*)vec); }
int h_ros(void* t, void* rootp, void* rlock, int idx, void* vec) { return ((node*)t)->rebalance_or_split((node**)rootp, *(lock_type*)rlock, idx, *(vx_vec*)vec); }
void h_grow(void* t, void* rootp, void* rlock, void* sib, void* vec) { ((node*)t)->grow_parent((node**)rootp, *(lock_type*)rlock, (node*)sib, *(vx_vec*)vec); }
void h_ins(void* n, void* rootp, void* rlock, unsigned pos, void* pred, const void* keyp, void* newNode, void* vec) {
    ((node*)n)->insert_inner((node**)rootp, *(lock_type*)rlock, pos, (node*)pred, *(const Key*)keyp, (node*)newNode, *(vx_vec*)vec);
}
void h_ins_rec(void* n, void* rootp, void* rlock, unsigned pos, void* pred, const void* keyp, void* newNode, void* vec) { h_ins(n, rootp, rlock, pos, pred, keyp, newNode, vec); }
// the fragment under contract: tree = {root, root_lock}
bool h_tail(void* tree, void* cur, long idx, int k) {
    vx_hints hints; OptimisticReadWriteLock::Lease lease; lease.version = 0; Key key = k;
    return ((vx_tree*)tree)->insert_tail((node*)cur, lease, idx, key, hints);
}
unsigned long h_layout(int w) {
    inner_node* z = (inner_node*)0; vx_tree* t = (vx_tree*)0;
    switch (w) {
    case 0: return sizeof(base);
    case 1: return sizeof(node);
    case 2: return sizeof(inner_node);
    case 3: return maxKeys;
    case 4: return sizeof(vx_vec);
    case 5: return (unsigned long)&((vx_vec*)0)->n;
    case 6: return sizeof(vx_tree);
    default: return (unsigned long)&t->root_lock;
    }
}
}
