/* C25 — leaf tail of btree::insert (IS_PARALLEL): lock discipline around rebalance_or_split, and the in-leaf insertion.
 * Universe: the leaf CUR, its parent P, the grandparent GP (top of the chain), two pool objects for fresh siblings.
 * Ghost counters of the lock specification: ends (end_write: version bumped, optimistic readers invalidated), aborts (abort_write:
 * version restored, readers NOT invalidated). */
#include <stdlib.h>
#include <stddef.h>
#include <string.h>
#define MAXK VX_MAXK
#ifndef VX_VEC_CAP
#define VX_VEC_CAP 6
#endif
struct vlock { int st, ends, aborts; unsigned char up, invec; } __attribute__((packed));
struct vnode { struct vnode *parent; struct vlock lock; unsigned long numElements; unsigned char position; unsigned char inner;
               int keys[MAXK]; struct vnode *children[MAXK + 1]; } __attribute__((packed));
struct vvec { struct vnode *d[VX_VEC_CAP]; unsigned long n; } __attribute__((packed));
struct vtree { struct vnode *root; struct vlock root_lock; } __attribute__((packed));
typedef struct vnode VN;
#define N(p) ((VN *)(p))
#define NPOOL 2
VN *CUR, *P, *GP, *POOL[NPOOL]; unsigned long g_pool_n;
struct vtree g_tree;
int g_g;                                  /* ghost index */
_Bool g_upgraded;                         /* ghost: the lease upgrade succeeded */
_Bool g_ros_called;                       /* ghost: rebalance_or_split was called */
VN *g_root_at_call;                       /* ghost: root pointer when rebalance_or_split was called */
_Bool nondet_bool(void); int nondet_int(void); long nondet_long(void); unsigned long nondet_ulong(void);
_Bool vx_nondet_bool(void) { return nondet_bool(); }
void vx_vec_mark(void *x) { N(x)->lock.invec = 1; }
_Bool vx_vec_has(const void *x) { return N(x)->lock.invec == 1; }
void vx_upgraded(void) { g_upgraded = 1; }
_Bool vx_restart(void) { return nondet_bool(); }
void *vx_memcpy(void *d, const void *s, unsigned long n) { return memcpy(d, s, n); }
void *vx_new_inner(void) { __CPROVER_assume(0); return NULL; }     /* allocation happens inside the replaced call only */
void *vx_new_leaf(void) { __CPROVER_assume(0); return NULL; }
#define PEQ(x, y) __CPROVER_pointer_equals((void *)(x), (void *)(y))

/* ---- what btree::insert must have established when it calls rebalance_or_split: the sphere of influence ---- */
static _Bool in_vec(struct vvec *v, VN *x) {
    for (int i = 0; i < VX_VEC_CAP; i++) if ((unsigned long)i < v->n && v->d[i] == x) return 1;
    return 0;
}
static _Bool sphere(VN *n, struct vvec *v) {
    for (int lvl = 0; lvl < 3; lvl++) {
        VN *p = n->parent;
        if (p == NULL) return g_tree.root_lock.st == 1 && g_tree.root == n && in_vec(v, NULL);
        if (p != P && p != GP) return 0;
        if (p->lock.st != 1 || p->lock.invec != 1 || !in_vec(v, p)) return 0;
        if (p->numElements < MAXK) return 1;
        n = p;
    }
    return 0;
}
/* ---- summary of node::rebalance_or_split (contract proved in unit btnode; see ASSUMPTIONS for the part that is assumed) ---- */
static _Bool ros_post(VN *t, struct vlock tl0, struct vlock pl0, struct vlock gl0, struct vlock rl0, VN *root0, struct vvec v0, struct vvec *v, int rv, int idx) {
    if (rv < 0 || rv > idx) return 0;
    if (t->numElements >= MAXK) return 0;                                           /* the leaf has room afterwards */
    if (t->lock.st != tl0.st || t->lock.ends != tl0.ends || t->lock.aborts != tl0.aborts) return 0;
    /* no lock of the sphere of influence is released or re-versioned */
    if (P->lock.st != pl0.st || P->lock.ends != pl0.ends || P->lock.aborts != pl0.aborts || P->lock.invec != pl0.invec) return 0;
    if (GP->lock.st != gl0.st || GP->lock.ends != gl0.ends || GP->lock.aborts != gl0.aborts || GP->lock.invec != gl0.invec) return 0;
    if (g_tree.root_lock.st != rl0.st || g_tree.root_lock.ends != rl0.ends || g_tree.root_lock.aborts != rl0.aborts) return 0;
    /* the root pointer changes only under the root lock, to a fresh node */
    if (g_tree.root != root0) { if (rl0.st != 1 || !(PEQ(g_tree.root, POOL[0]) || PEQ(g_tree.root, POOL[1]))) return 0; }
    /* locked_nodes: the old entries in order, then fresh write-locked siblings */
    if (v->n < v0.n || v->n > VX_VEC_CAP || v->n > v0.n + NPOOL) return 0;
    for (int i = 0; i < VX_VEC_CAP; i++) {
        if ((unsigned long)i < v0.n) { if (!PEQ(v->d[i], v0.d[i])) return 0; }
        else if ((unsigned long)i < v->n) {
            if (!(PEQ(v->d[i], POOL[0]) || PEQ(v->d[i], POOL[1]))) return 0;
            if (v->d[i] == g_tree.root) return 0;                                   /* a new root is not locked and not recorded */
            if (v->d[i]->lock.st != 1 || v->d[i]->lock.invec != 1 || v->d[i]->lock.ends != 0 || v->d[i]->lock.aborts != 0) return 0;
            if ((unsigned long)i > v0.n && v->d[i] == v->d[i - 1]) return 0;
        }
    }
    /* a pool object that was not appended (unused, or the new root) is neither locked nor recorded */
    for (int k = 0; k < NPOOL; k++) {
        _Bool appended = 0;
        for (int i = 0; i < VX_VEC_CAP; i++) if ((unsigned long)i >= v0.n && (unsigned long)i < v->n && v->d[i] == POOL[k]) appended = 1;
        if (!appended && (POOL[k]->lock.st != 0 || POOL[k]->lock.invec != 0)) return 0;
    }
    return 1;
}
int h_ros(void *t, void *rootp, void *rlock, int idx, void *vec)
__CPROVER_requires(t == (void *)CUR && rootp == (void *)&g_tree.root && rlock == (void *)&g_tree.root_lock)
__CPROVER_requires(N(t)->numElements == MAXK && N(t)->lock.st == 1 && idx >= 0 && idx <= MAXK)
__CPROVER_requires(sphere(N(t), (struct vvec *)vec))          /* <- the obligation on btree::insert: sphere of influence locked and recorded */
__CPROVER_ensures(ros_post(N(t), __CPROVER_old(N(t)->lock), __CPROVER_old(P->lock), __CPROVER_old(GP->lock), __CPROVER_old(g_tree.root_lock),
                           __CPROVER_old(g_tree.root), __CPROVER_old(*(struct vvec *)vec), (struct vvec *)vec, __CPROVER_return_value, idx))
__CPROVER_ensures(g_ros_called && g_root_at_call == __CPROVER_old(g_tree.root))
__CPROVER_assigns(__CPROVER_object_whole(t), __CPROVER_object_whole(P), __CPROVER_object_whole(GP), __CPROVER_object_whole(POOL[0]), __CPROVER_object_whole(POOL[1]),
                  g_tree.root, __CPROVER_object_whole(vec), g_ros_called, g_root_at_call);

/* ---- the fragment ---- */
struct snap { struct vlock c, p, g, r, s0, s1; VN *root; unsigned long num; };
static _Bool released(struct vlock *l) { return l->st == 0; }
#ifdef VX_DBG
#define T0(k) (__CPROVER_assert(0, "dbg: tail_post check #" #k " failed"), 0)
#else
#define T0(k) 0
#endif
static _Bool tail_post(_Bool ret, struct snap s0, VN C0, long idx, int k) {
    /* every lock is released on return */
    if (!released(&CUR->lock) || !released(&P->lock) || !released(&GP->lock) || !released(&g_tree.root_lock)) return T0(1);
    if (!released(&POOL[0]->lock) || !released(&POOL[1]->lock)) return T0(2);
    if (!g_upgraded) {   /* the lease was stale: nothing is touched, the operation restarts */
        return CUR->lock.ends == s0.c.ends && CUR->lock.aborts == s0.c.aborts && CUR->numElements == C0.numElements
            && P->lock.ends == s0.p.ends && P->lock.aborts == s0.p.aborts && g_tree.root_lock.ends == s0.r.ends && g_tree.root_lock.aborts == s0.r.aborts;
    }
    /* the leaf was modified (key inserted, or keys moved away by rebalance_or_split): its readers must be invalidated */
    if (CUR->lock.ends != s0.c.ends + 1 || CUR->lock.aborts != s0.c.aborts) return T0(3);
    if (g_ros_called) {
        /* the direct parent received a separator (split) or had one replaced (rebalance): released by end_write */
        if (C0.parent != NULL && (P->lock.ends != s0.p.ends + 1 || P->lock.aborts != s0.p.aborts)) return T0(4);
        /* the root pointer changed => the root lock is released by end_write */
        if (g_tree.root != g_root_at_call && (g_tree.root_lock.ends != s0.r.ends + 1 || g_tree.root_lock.aborts != s0.r.aborts)) return T0(5);
        /* fresh siblings recorded in locked_nodes are released by end_write (they were filled) */
        if (POOL[0]->lock.invec == 1 && POOL[0]->lock.ends != 1) return T0(6);
        if (POOL[1]->lock.invec == 1 && POOL[1]->lock.ends != 1) return T0(7);
        return 1;
    }
    /* no split necessary: the key is inserted at idx, the other keys keep their order; no other lock is touched */
    if (!ret || CUR->numElements != C0.numElements + 1 || idx < 0 || idx >= MAXK || CUR->keys[idx] != k) return T0(8);
    if (g_g >= 0 && g_g < (int)C0.numElements && (g_g < idx ? CUR->keys[g_g] != C0.keys[g_g] : CUR->keys[g_g + 1] != C0.keys[g_g])) return T0(9);
    return P->lock.ends == s0.p.ends && P->lock.aborts == s0.p.aborts && GP->lock.ends == s0.g.ends
        && g_tree.root_lock.ends == s0.r.ends && g_tree.root_lock.aborts == s0.r.aborts && g_tree.root == s0.root;
}
struct snap g_s0;
_Bool h_tail(void *tree, void *cur, long idx, int k)
__CPROVER_requires(tree == (void *)&g_tree && cur == (void *)CUR && idx >= 0 && (unsigned long)idx <= N(cur)->numElements && N(cur)->numElements <= MAXK)
__CPROVER_ensures(tail_post(__CPROVER_return_value, g_s0, __CPROVER_old(*N(cur)), idx, k))
__CPROVER_assigns(__CPROVER_object_whole(CUR), __CPROVER_object_whole(P), __CPROVER_object_whole(GP), __CPROVER_object_whole(POOL[0]), __CPROVER_object_whole(POOL[1]),
                  g_tree, g_upgraded, g_ros_called, g_root_at_call);

unsigned long h_layout(int w);
#ifdef VX_CANARY
#define CANARY __CPROVER_assert(0, "canary: reachable after the call under contract")
#else
#define CANARY
#endif
void harness_layout(void) {
    __CPROVER_assert(h_layout(0) == offsetof(VN, keys) && h_layout(1) == offsetof(VN, children) && h_layout(2) == sizeof(VN), "layout: node types");
    __CPROVER_assert(h_layout(3) == MAXK, "layout: node::maxKeys is VX_MAXK for the chosen blockSize");
    __CPROVER_assert(h_layout(4) == sizeof(struct vvec) && h_layout(5) == offsetof(struct vvec, n), "layout: locked_nodes scaffold");
    __CPROVER_assert(h_layout(6) == sizeof(struct vtree) && h_layout(7) == offsetof(struct vtree, root_lock), "layout: tree scaffold");
    CANARY;
}
static VN *mk(void) {
    VN *p = malloc(sizeof(VN)); __CPROVER_assume(p != NULL);
    __CPROVER_assume(p->lock.st == 0 && p->lock.ends >= 0 && p->lock.ends < 100 && p->lock.aborts >= 0 && p->lock.aborts < 100);
    __CPROVER_assume(p->numElements <= MAXK && p->position <= MAXK && p->inner <= 1);
    p->lock.up = 0; p->lock.invec = 0;
    return p;
}
void harness_tail(void) {
    CUR = mk(); P = mk(); GP = mk(); POOL[0] = mk(); POOL[1] = mk();
    for (int k = 0; k < NPOOL; k++) { POOL[k]->parent = NULL; POOL[k]->lock.ends = 0; POOL[k]->lock.aborts = 0; POOL[k]->numElements = 0; }
    CUR->inner = 0; P->inner = 1; GP->inner = 1;
    /* the chain above the leaf: CUR is the root, or hangs below P, which is the root or hangs below GP (the top) */
    GP->parent = NULL;
    if (nondet_bool()) { CUR->parent = NULL; g_tree.root = CUR; P->parent = NULL; }
    else {
        CUR->parent = P; __CPROVER_assume(CUR->position <= P->numElements); P->children[CUR->position] = CUR;
        if (nondet_bool()) { P->parent = NULL; g_tree.root = P; }
        else { P->parent = GP; __CPROVER_assume(P->position <= GP->numElements && GP->numElements < MAXK); GP->children[P->position] = P; g_tree.root = GP; }
    }
    __CPROVER_assume(g_tree.root_lock.st == 0 && g_tree.root_lock.ends >= 0 && g_tree.root_lock.ends < 100 && g_tree.root_lock.aborts >= 0 && g_tree.root_lock.aborts < 100);
    g_upgraded = 0; g_ros_called = 0; g_root_at_call = NULL; g_g = nondet_int();
    g_s0.c = CUR->lock; g_s0.p = P->lock; g_s0.g = GP->lock; g_s0.r = g_tree.root_lock; g_s0.root = g_tree.root;
    long idx = nondet_long(); int k = nondet_int();
    h_tail(&g_tree, CUR, idx, k);
    CANARY;
}
