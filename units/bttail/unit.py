"""C25 (leaf tail of btree::insert, IS_PARALLEL variant): the part of the real insert() from the upgrade of the leaf lease to a write lock
to the return — locking the sphere of influence, calling rebalance_or_split, releasing every lock with the right end_write/abort_write
decision, inserting into the leaf — extracted as a fragment and verified against a contract; node::rebalance_or_split is replaced by a
summary of its (separately verified, unit btnode) contract."""
import os
import re
import subprocess
import importlib.util
from vxlib.extract import Source, strip_comments, ExtractError, blank, match_brace
from vxlib import rewrite as rw
from vxlib.cbmc import Harness

HERE = os.path.dirname(os.path.abspath(__file__))
BT = 'src/include/souffle/datastructure/BTree.h'


def btnode():
    spec = importlib.util.spec_from_file_location('unit_btnode_for_tail', os.path.join(HERE, '..', 'btnode', 'unit.py'))
    m = importlib.util.module_from_spec(spec)
    spec.loader.exec_module(m)
    return m


def extract(ctx):
    BN = btnode()
    BN.extract(ctx)                      # node structs + node operations -> extracted.hpp (same rules, same log)
    ctx.write('vx_btnode.h', open(os.path.join(HERE, '..', 'btnode', 'vx_btnode.h')).read())
    log = {}
    src = Source(os.path.join(ctx.repo, BT))
    region, _ = src.between(r'bool\s+insert\s*\(\s*const\s+Key&\s*k\s*,\s*operation_hints&\s*hints\s*\)\s*\{', r'template\s*<\s*typename\s+Iter\s*>\s*void\s+insert\s*\(')
    ctx.write('insert.in', strip_comments(region))
    p = subprocess.run(['cpp', '-P', '-undef', '-nostdinc', '-DIS_PARALLEL', '-x', 'c++', os.path.join(ctx.work, 'insert.in')], stdout=subprocess.PIPE, stderr=subprocess.PIPE)
    if p.returncode != 0:
        raise ExtractError('cpp on btree::insert failed: ' + p.stderr.decode()[:300])
    fn = p.stdout.decode()
    b = blank(fn)
    ups = [m.start() for m in re.finditer(r'if\s*\(\s*!\s*cur->lock\.try_upgrade_to_write\s*\(\s*cur_lease\s*\)\s*\)', b)]
    rets = [m.end() for m in re.finditer(r'return\s+true\s*;', b)]
    if not ups or not rets or rets[-1] < ups[-1]:
        raise ExtractError('btree::insert: the leaf tail (last try_upgrade_to_write(cur_lease) ... last `return true;`) was not found')
    frag = fn[ups[-1]:rets[-1]]
    if blank(frag).count('{') != blank(frag).count('}'):
        raise ExtractError('btree::insert: the leaf tail is not brace-balanced')
    ctx.fact('BTree.h: in the leaf tail of insert(), cur/cur_lease/idx/k/hints/root/root_lock are the only names taken from the enclosing function',
             not re.search(r'\b(checkHint|leftmost|pos|a|b|search|weak_comp|comp|next|next_lease|root_lease|parent_lease)\b', re.sub(r'\bparents?\b|\bpriv\b', '', blank(frag))))
    log['fragment: btree::insert from the last `if (!cur->lock.try_upgrade_to_write(cur_lease))` to the last `return true;` (IS_PARALLEL branch, by the real cpp)'] = 1
    frag, n = re.subn(r'\bnode::maxKeys\b', 'maxKeys', frag)
    log['R18 node::maxKeys -> maxKeys'] = n
    frag, n = re.subn(r'std::vector<node\*>', 'vx_vec', frag)
    log['R8 std::vector<node*> -> vx_vec'] = n
    frag, n = re.subn(r'\s*&&\s*"[^"]*"\s*\)', ')', frag)
    log['R5 message strings in assert dropped'] = n
    frag, n = re.subn(r'(?<![\w.>])cur->rebalance_or_split\s*\(\s*const_cast<node\*\*>\(&root\)\s*,\s*root_lock\s*,', 'h_ros(cur, (node**)&root, &(root_lock),', frag)
    if n != 1:
        raise ExtractError('btree::insert: expected one call cur->rebalance_or_split(const_cast<node**>(&root), root_lock, ...) in the leaf tail')
    frag = re.sub(r'(h_ros\(cur, \(node\*\*\)&root, &\(root_lock\),[^;]*?),\s*parents\)', r'\1, &(parents))', frag)
    log['R8 cur->rebalance_or_split(...) -> h_ros(cur, ...) (wrapper that carries the contract)'] = n
    scaffold = ('#include "extracted.hpp"\nnamespace souffle {\nnamespace detail {\n'
                'struct vx_tree {\n    typedef vx_hints operation_hints;\n    node* root;\n    lock_type root_lock;\n'
                '    // a restart of the whole operation (recursive call of insert): outside the fragment\n'
                '    bool insert(const Key&, operation_hints&) { return vx_restart(); }\n'
                '    bool insert_tail(node* cur, OptimisticReadWriteLock::Lease cur_lease, long idx, const Key& k, operation_hints& hints) {\n        ' + frag + '\n    }\n};\n}\n}\n')
    ctx.write('raw_tail.hpp', scaffold)
    ctx.write('native_tail.cpp', '#define VX_NATIVE 1\n#define VX_BLOCKSIZE 64\n#include "raw_tail.hpp"\n')
    docs = rw.clang_ast('native_tail.cpp', 'insert_tail', ctx.work, extra=['-I', os.path.join(HERE, '..', 'btnode'), '-I', ctx.work])
    out, n_auto = rw.r2_auto(scaffold, 'raw_tail.hpp', docs, log, extra_types=('detail::node *', 'detail::node', 'vx_vec::rit', 'souffle::vx_vec::rit'))
    if re.search(r'\bauto\b', blank(out)):
        raise ExtractError('R2 left an `auto` in the leaf tail')
    ctx.write('extracted_tail.hpp', out)
    ctx.rewrites.update(log)
    ctx.dropped += ['btree::insert before the leaf tail: first-element special case, hints check, optimistic descent with lease validation, in-node search, the set/multiset early exit',
                    'the restart of the operation (`return insert(k, hints)`): an opaque call']


def harnesses(ctx):
    BN = btnode()
    cpp = os.path.join(HERE, 'wrappers.cpp')
    c = [os.path.join(HERE, 'contracts.c')]
    maxk = 4
    D = ['VX_BLOCKSIZE=%d' % (32 + 4 * maxk), 'VX_MAXK=%d' % maxk, 'VX_VEC_CAP=4']
    B = {'maxKeys': maxk, 'chain': 3, 'note': 'node::maxKeys instantiated at %d; the leaf has at most two ancestors in the harness (leaf, parent, grandparent = top)' % maxk}
    hs = [Harness('bttail.layout', 'harness_layout', unwind=None, cpp=cpp, c=c, defines=D, must_have=['layout'], bounded=B, clause='C mirror structs have the layout of the extracted types'),
          Harness('bttail.insert_tail', 'harness_tail', cpp=cpp, c=c, defines=D, enforce='h_tail', replace=['h_ros'], unwind=6, timeout=1500,
                  flags=['--bounds-check', '--pointer-check', '--signed-overflow-check', '--div-by-zero-check', '--undefined-shift-check', '--unwindset', '__CPROVER_contracts_write_set_check_assigns_clause_inclusion.0:20'], bounded=B, must_have=['postcondition', 'precondition'],
                  clause='leaf tail of btree::insert: the sphere of influence is write-locked and recorded before rebalance_or_split is called (its precondition); every lock taken is released; the leaf and its direct parent, which were modified, are released by end_write; the root lock is released by end_write whenever the root pointer changed; without a split the key is inserted at idx and the other keys keep their order',
                  funcs=['souffle::detail::btree::insert (leaf tail, IS_PARALLEL)'])]
    return hs


ASSUMPTIONS = [
    'fragment: the code of btree::insert(k, hints) from the upgrade of the leaf lease to the return, as a function of (cur, cur_lease, idx, k, hints); the descent that produces cur and idx is not verified',
    'node::rebalance_or_split is replaced by a SUMMARY of its contract: returns 0 <= r <= idx, leaves cur with room and its lock untouched, releases no lock of the sphere of influence, appends only fresh write-locked siblings to locked_nodes, changes the root pointer only while the root lock is held (the first four follow from the contracts proved in unit btnode; "releases no lock of the sphere" is assumed)',
    'sequential view: no other thread changes cur->parent between the reads of the parent-locking loop (the loop\'s re-check therefore succeeds at once); try_upgrade_to_write may fail nondeterministically',
    'chain of at most three nodes (leaf, parent, grandparent as top), node::maxKeys = 4',
]
TRUSTED = ['units/btnode/vx_btnode.h', 'units/bttail: scaffold struct vx_tree around the fragment']
MUTANTS = [
    dict(name='insert: leaf released by abort_write after a split', file=BT, find=r'(// release current lock\s*)cur->lock\.end_write\(\);', repl=r'\1cur->lock.abort_write();', expect=r'bttail\.insert_tail'),
    dict(name='insert: root lock decision taken from cur->parent', file=BT, find=r'if \(old_root != root\) \{', repl='if (cur->parent == nullptr) {', expect=r'bttail\.insert_tail'),
    dict(name='insert: parent not recorded in the locked list', file=BT, find=r'(// record locked node\s*)parents\.push_back\(parent\);', repl=r'\1if (parent) {} ', expect=r'bttail\.insert_tail'),
    dict(name='insert: stops locking one level early', file=BT, find=r'if \(!parent \|\| !parent->isFull\(\)\) \{', repl='if (!parent || true) {', expect=r'bttail\.insert_tail'),
]


def replay(ctx, h, r, ins, tr):
    """two deterministic histories on the real btree_set (IS_PARALLEL): (1) a second inserter parked between its lease on a leaf and its
    upgrade while the first inserter splits that leaf (both must not end up with a stale position); (2) an insert stalled between reading
    the root pointer and validating the root lease while another insert replaces the root.  Both programs come from the sub-agents'
    demonstrations of the seeded changes (seeded/C25_r3, seeded/C25) and use public headers only."""
    out, res = [], None
    for name in ('parked_inserter', 'stalled_reader'):
        exe = os.path.join(ctx.work, 'replay_' + name)
        p = subprocess.run(['g++', '-std=c++17', '-O1', '-fopenmp', '-pthread', '-I', os.path.join(ctx.repo, 'src/include'),
                            os.path.join(HERE, '..', '..', 'replay', 'bttail', name + '.cpp'), '-o', exe], stdout=subprocess.PIPE, stderr=subprocess.STDOUT)
        if p.returncode != 0:
            out.append('%s: build failed: %s' % (name, p.stdout.decode()[-200:]))
            continue
        try:
            q = subprocess.run([exe], stdout=subprocess.PIPE, stderr=subprocess.STDOUT, timeout=120)
        except subprocess.TimeoutExpired:
            out.append('%s: no result within 120 s' % name)
            continue
        txt = [l for l in q.stdout.decode().strip().split('\n') if l.strip()]
        out.append('%s: exit %d: %s' % (name, q.returncode, ' | '.join(txt[-2:])[:260]))
        if q.returncode not in (0,):
            res = True
        elif res is None:
            res = False
    return res, 'real BTree.h, forced interleavings: ' + ' ;; '.join(out)
