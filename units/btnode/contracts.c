/* C25 (node level) — contracts for the structural operations of a B-tree node (BTree.h, IS_PARALLEL variant).
 *
 * Objects.  All node objects live in a finite universe g_U[0..NU) (the harness allocates them; the last NPOOL are the allocator's
 * pool for `new inner_node()/leaf_node()`).  A contract's frame is "every universe object except the protected ones" (conditional
 * assigns targets), its pointer-valued results are universe members (IN_U).
 * View.  A node's token sequence is c0 k0 c1 k1 ... k(n-1) cn (keys only for a leaf).  Every operation rewrites the token sequences of
 * a small region so that their in-order concatenation is unchanged (split: T = T' ++ [sep] ++ S and sep,S are handed to the parent right
 * behind T; rebalance: L ++ [sep] ++ T = L' ++ [sep'] ++ T'; insert_inner: (key,newNode) appear right behind predecessor).  The contracts
 * state these equations pointwise through GHOST INDICES (g_g, g_j, g_gu: arbitrary, fixed before the call), together with the back links
 * (child->parent, child->position), the lock discipline (a modified sibling is released by end_write, an unmodified one by abort_write;
 * new nodes are write-locked and recorded in locked_nodes) and the root pointer.
 * Sphere of influence.  The ghost flag lock.up of a node u means UPMEAN(u): u's parent (or the root lock) is write-held, recorded,
 * well-formed, linked to u and — if full — itself `up`.  It is what btree::insert establishes before calling rebalance_or_split. */
#include <stdlib.h>
#include <stddef.h>
#include "bt_gen.h"
/* bool members are mirrored as bytes and always compared with 0/1: a havocked _Bool object may hold a byte other than 0/1, which CBMC
   reads inconsistently (bit-valid but not type-valid) */
struct vlock { int st, ends, aborts; unsigned char up, invec; } __attribute__((packed));
struct vnode { struct vnode *parent; struct vlock lock; unsigned long numElements; unsigned char position; unsigned char inner;
               int keys[VX_MAXK]; struct vnode *children[VX_MAXK + 1]; } __attribute__((packed));
#ifndef VX_VEC_CAP
#define VX_VEC_CAP 6
#endif
struct vvec { struct vnode *d[VX_VEC_CAP]; unsigned long n; } __attribute__((packed));
typedef struct vnode VN;
#define N(p) ((VN *)(p))
#define MAXK VX_MAXK
VN *g_U[NU]; unsigned long g_pool_n;
VN *g_root; struct vlock g_rlock; struct vvec g_vec;
int g_g, g_j, g_gu;                       /* ghost indices */
_Bool g_enf_ros;                          /* ghost: set by the harness that enforces rebalance_or_split (its snapshots are meaningful) */
VN S_L, S_P; VN *g_left0;                              /* harness snapshots of the left sibling and the parent (rebalance_or_split) */
_Bool nondet_bool(void); int nondet_int(void); unsigned long nondet_ulong(void);
int g_trylock = -1;                       /* outcome of try_start_write on the left sibling: -1 nondeterministic, 0/1 fixed by a case-split harness */
_Bool vx_nondet_bool(void) { return g_trylock < 0 ? nondet_bool() : (g_trylock != 0); }
void vx_vec_mark(void *x) { N(x)->lock.invec = 1; }
void vx_upgraded(void) {}
_Bool vx_restart(void) { return nondet_bool(); }
_Bool vx_vec_has(const void *x) { return N(x)->lock.invec == 1; }
void *vx_memcpy(void *d, const void *s, unsigned long n) { return memcpy(d, s, n); }
static void *vx_alloc(void) {
    __CPROVER_assert(g_pool_n < NPOOL, "scaffold: allocation pool exhausted (harness bound)");
    __CPROVER_assume(g_pool_n < NPOOL);
    VN *p = g_U[POOL0 + g_pool_n]; g_pool_n++; return p;
}
void *vx_new_inner(void) { return vx_alloc(); }
void *vx_new_leaf(void) { return vx_alloc(); }

/* ---- predicates: written as functions with statements (one giant clause expression makes CBMC's simplifier quadratic) ---- */
/* Pointer equalities in postconditions are written with __CPROVER_pointer_equals: where a contract REPLACES a call, DFCC havocs the
   pointer fields in the frame, and only this predicate gives the havocked pointer a value CBMC can dereference afterwards (a plain ==
   constrains the bits but leaves the value set empty: later dereferences would go to CBMC's "invalid object").  Where a clause is
   checked (enforce mode, preconditions at call sites) it is ordinary equality.  IN_U(p) (generated): p equals one of g_U[0..NU). */
#define PEQ(x, y) __CPROVER_pointer_equals((void *)(x), (void *)(y))
static _Bool in_u(const void *p) { for (int u = 0; u < NU; u++) if ((VN *)p == g_U[u]) return 1; return 0; }
static int poolidx(const void *p) { for (int k = 0; k < NPOOL; k++) if ((VN *)p == g_U[POOL0 + k]) return k; return -1; }
/* inner node whose first numElements+1 children are universe members linked back to it at the right positions */
static _Bool wfi(VN *n) {
    if (n->inner != 1 || n->numElements > MAXK) return 0;
    for (int i = 0; i <= MAXK; i++) {
        if ((unsigned long)i > n->numElements) break;
        VN *c = n->children[i];
        if (!in_u(c) || c->parent != n || c->position != i) return 0;
    }
    return 1;
}
#define WFI(n) wfi(N(n))
#define HELD(n) (N(n)->lock.st == 1 && N(n)->lock.invec == 1)
static _Bool upmean(VN *u) {
    if (u->lock.up == 0) return 1;
    if (u->lock.up != 1) return 0;
    if (u->parent == NULL) return g_rlock.st == 1 && g_root == u && u->position == 0;
    VN *p = u->parent;
    if (!in_u(p) || !HELD(p) || !wfi(p)) return 0;
    if (u->position > p->numElements || p->children[u->position] != u) return 0;
    return p->numElements < MAXK || p->lock.up == 1;
}
static _Bool allup(void) { for (int u = 0; u < NU; u++) if (!upmean(g_U[u])) return 0; return 1; }
#define ALLUP allup()

#ifdef VX_DBG
#define R0(k) (__CPROVER_assert(0, "dbg: predicate check #" #k " failed"), 0)
#else
#define R0(k) 0
#endif
/* ---- postcondition predicates: functions with early returns, so that every dereference is guarded by the checks before it ---- */
static _Bool fresh(VN *p, unsigned long pool_before) {
    int k = poolidx(p);
    return k >= 0 && (unsigned long)k >= pool_before && (unsigned long)k < g_pool_n;
}
/* b sits right behind a in a's parent, separated by keyv */
static _Bool post_link(VN *a, VN *b, int keyv) {
    if (a->parent == NULL || !IN_U(a->parent)) return R0(1);
    VN *p = a->parent;
    if (p == a || p == b || p->inner != 1 || !PEQ(b->parent, p)) return R0(2);
    if (a->position >= MAXK || b->position != a->position + 1 || b->position > p->numElements || p->numElements > MAXK) return R0(3);
    return PEQ(p->children[a->position], a) && PEQ(p->children[b->position], b) && p->keys[a->position] == keyv;
}
/* a's parent is a brand-new root */
static _Bool post_newroot(VN *a, unsigned long pool_before) {
    if (a->parent == NULL || !PEQ(g_root, a->parent)) return R0(4);
    VN *r = g_root;
    if (!fresh(r, pool_before)) return R0(5);
    return r->parent == NULL && r->position == 0 && r->numElements == 1 && r->inner == 1 && a->position == 0;
}
/* c is child i of nn, linked back */
static _Bool ch_at(VN *nn, int i, VN *c) {
    if (i < 0 || i > MAXK || c == NULL) return R0(6);
    return PEQ(nn->children[i], c) && PEQ(c->parent, nn) && c->position == i;
}
static _Bool same_lock(struct vlock *a, struct vlock *b) {
    return a->st == b->st && a->ends == b->ends && a->aborts == b->aborts && a->up == b->up && a->invec == b->invec;
}
/* split: T0 = T' ++ [sep] ++ S, pointwise at the ghost index g_g */
static _Bool post_split(VN *t, VN T0, unsigned long pool_before) {
    if (t->numElements >= MAXK) return R0(7);
    int sp = (int)t->numElements;
    if (t->parent == NULL || !IN_U(t->parent)) return R0(8);
    VN *p = t->parent;
    if (p == t || p->inner != 1 || t->position >= MAXK || p->numElements > MAXK) return R0(9);
    if (!PEQ(p->children[t->position], t) || (unsigned long)t->position + 1 > p->numElements) return R0(10);
    if (p->children[t->position + 1] == NULL || !IN_POOL(p->children[t->position + 1])) return R0(11);
    VN *s = p->children[t->position + 1];
    if (s == t || s == p || !fresh(s, pool_before)) return R0(12);
    if (!PEQ(s->parent, p) || s->position != t->position + 1 || s->inner != T0.inner || s->numElements != (unsigned long)(MAXK - sp - 1)) return R0(13);
    if (s->lock.st != 1 || s->lock.invec != 1) return R0(14);                /* new sibling: write-locked and recorded */
    if (t->inner != T0.inner || !same_lock(&t->lock, &T0.lock)) return R0(15);
    if (g_g >= 0 && g_g < MAXK) {                                            /* keys */
        int k = T0.keys[g_g];
        if (g_g < sp ? t->keys[g_g] != k : g_g == sp ? p->keys[t->position] != k : s->keys[g_g - sp - 1] != k) return R0(17);
    }
    if (T0.inner == 1)                                                       /* children, in order, linked back to their (new) parent */
        for (int i = 0; i <= MAXK; i++)
            if (i <= sp ? !ch_at(t, i, T0.children[i]) : !ch_at(s, i - sp - 1, T0.children[i])) return R0(18);
    if (T0.parent == NULL && !post_newroot(t, pool_before)) return R0(19);
    return 1;
}
/* insert_inner into a node with room: N0's tokens with (key,newNode) inserted right behind predecessor */
static _Bool post_ins_room(VN *n, VN N0, unsigned pos, VN *pred, VN *newNode, int keyv, VN *root_before, unsigned long pool_before) {
    if (n->numElements != N0.numElements + 1 || pos >= MAXK) return R0(20);
    if (n->keys[pos] != keyv || !ch_at(n, (int)pos + 1, newNode)) return R0(23);
    if (n->parent != N0.parent || n->position != N0.position || n->inner != 1 || !same_lock(&n->lock, &N0.lock)) return R0(21);
    if (g_root != root_before || g_pool_n != pool_before) return R0(22);
    if (g_g >= 0 && g_g < (int)N0.numElements) {
        if ((unsigned)g_g < pos ? n->keys[g_g] != N0.keys[g_g] : n->keys[g_g + 1] != N0.keys[g_g]) return R0(24);
    }
    for (int i = 0; i <= MAXK; i++) {
        if (i > (int)N0.numElements) break;
        if ((unsigned)i <= pos ? !ch_at(n, i, N0.children[i]) : !ch_at(n, i + 1, N0.children[i])) return R0(25);
    }
    return 1;
}
static _Bool post_rootsplit(VN *root_before, unsigned long pool_before) {
    if (g_root == NULL || !IN_U(g_root)) return R0(26);
    VN *r = g_root;
    if (r == root_before || !fresh(r, pool_before)) return R0(27);
    return r->parent == NULL && r->position == 0 && r->numElements == 1 && r->inner == 1;
}
/* rebalance: L ++ [sep] ++ T = L' ++ [sep'] ++ T' over the region (left, separator in the parent, t); rv = number moved */
static _Bool post_rebal(VN *t, VN T0, int rv, VN *root_before, unsigned long pool_before) {
    if (rv <= 0 || rv > MAXK) return R0(28);
    if (T0.parent == NULL || T0.position == 0 || !PEQ(t->parent, T0.parent) || t->position != T0.position) return R0(29);
    VN *p = t->parent;
    if (t->numElements != (unsigned long)(MAXK - rv)) return R0(30);
    int posl = T0.position - 1;
    if (p->children[posl] == NULL || !IN_U(p->children[posl])) return R0(31);
    VN *l = p->children[posl];
    if (t->inner != T0.inner || !same_lock(&t->lock, &T0.lock)) return R0(32);
    if (g_root != root_before || g_pool_n != pool_before) return R0(33);
    /* what insert_inner needs about t itself: its tokens are the old ones shifted by rv, all children linked back */
    if (g_g >= 0 && g_g + rv < MAXK && t->keys[g_g] != T0.keys[g_g + rv]) return R0(34);
    if (T0.inner == 1)
        for (int i = 0; i + rv <= MAXK; i++)
            if (!ch_at(t, i, T0.children[i + rv])) return R0(35);
    if (!g_enf_ros) return 1;
    /* the full statement, relative to the harness snapshots S_L (left) and S_P (parent) */
    if (l != g_left0) return R0(37);
    int ln = (int)S_L.numElements;
    if (ln + rv > MAXK || l->numElements != (unsigned long)(ln + rv)) return R0(38);
    if (g_j >= 0 && g_j < ln + 1 + MAXK) {                                   /* combined key sequence */
        int ok = g_j < ln ? S_L.keys[g_j] : g_j == ln ? S_P.keys[posl] : T0.keys[g_j - ln - 1];
        int nk = g_j < ln + rv ? l->keys[g_j] : g_j == ln + rv ? p->keys[posl] : t->keys[g_j - ln - rv - 1];
        if (ok != nk) return R0(39);
    }
    if (T0.inner == 1 && g_j >= 0 && g_j <= ln + 1 + MAXK) {                 /* combined child sequence with back links */
        VN *c = g_j <= ln ? S_L.children[g_j] : T0.children[g_j - ln - 1];
        if (g_j <= ln) { if (l->children[g_j] != c) return R0(40); }
        else if (g_j <= ln + rv) { if (c == NULL || l->children[g_j] != c || c->parent != l || c->position != g_j) return R0(41); }
        else { int k = g_j - ln - rv - 1; if (k < 0 || k > MAXK || c == NULL || t->children[k] != c || c->parent != t || c->position != k) return R0(42); }
    }
    /* the modified left sibling is released by end_write (optimistic readers of it are invalidated) */
    if (l->lock.st != 0 || l->lock.ends != S_L.lock.ends + 1 || l->lock.aborts != S_L.lock.aborts) return R0(43);
    if (l->parent != S_L.parent || l->position != S_L.position || l->inner != S_L.inner) return R0(44);
    /* the parent changes in the separator only */
    if (p->numElements != S_P.numElements || p->parent != S_P.parent || p->position != S_P.position || !same_lock(&p->lock, &S_P.lock)) return R0(45);
    if (g_g >= 0 && g_g < MAXK && g_g != posl && p->keys[g_g] != S_P.keys[g_g]) return R0(46);
    if (g_g >= 0 && g_g <= MAXK && p->children[g_g] != S_P.children[g_g]) return R0(47);
    return 1;
}
/* rebalance case: a universe object outside (t, left, parent) keeps its contents; a child of t may change its back link only */
static _Bool unchanged_but_links(VN *u, VN U0, _Bool links_too) {
    if (u->numElements != U0.numElements || u->inner != U0.inner || !same_lock(&u->lock, &U0.lock)) return R0(48);
    if (g_g >= 0 && g_g < MAXK && u->keys[g_g] != U0.keys[g_g]) return R0(49);
    if (g_g >= 0 && g_g <= MAXK && u->children[g_g] != U0.children[g_g]) return R0(50);
    if (links_too && (u->parent != U0.parent || u->position != U0.position)) return R0(51);
    return 1;
}
#define GU (g_U[g_gu < 0 || g_gu >= NU ? 0 : g_gu])
static _Bool post_rebal_frame(VN *t, VN GU0) {
    if (g_gu < 0 || g_gu >= NU) return 1;
    VN *u = g_U[g_gu];
    if (u == t || u == t->parent || u == t->parent->children[t->position - 1]) return 1;
    return unchanged_but_links(u, GU0, GU0.parent != t);
}

#define ROOTARGS (rootp == (void *)&g_root && rlock == (void *)&g_rlock && vec == (void *)&g_vec)
#define GHOSTS g_vec, g_pool_n
#define OLDPOOL __CPROVER_old(g_pool_n)
#define OLDROOT __CPROVER_old(g_root)

/* ------------------------------------------------------------------------------------------------ grow_parent */
#define PRE_GROW (ROOTARGS && in_u(t) && in_u(sib) && N(sib) != N(t) && N(t)->lock.st == 1 && N(t)->lock.up == 1 && ALLUP            \
    && N(t)->numElements < MAXK && (N(t)->inner == 0 || (N(t)->inner == 1 && N(t)->lock.invec == 1)) && N(sib)->lock.st == 1 && N(sib)->lock.invec == 1 && N(sib)->inner == N(t)->inner)
#define C_GROW(u) (g_U[u] != N(t) && g_U[u] != N(sib) && g_U[u]->parent != N(t) && g_U[u]->parent != N(sib))
void h_grow(void *t, void *rootp, void *rlock, void *sib, void *vec)
__CPROVER_requires(PRE_GROW)
__CPROVER_ensures(post_link(N(t), N(sib), __CPROVER_old(N(t)->keys[N(t)->numElements])))
__CPROVER_ensures(__CPROVER_old(N(t)->parent) == NULL ==> post_newroot(N(t), OLDPOOL))
__CPROVER_ensures(g_pool_n >= OLDPOOL)
__CPROVER_assigns(N(t)->parent, N(t)->position, N(sib)->parent, N(sib)->position, g_root, GHOSTS; FRAME_U(C_GROW));

/* ------------------------------------------------------------------------------------------------ insert_inner */
#define NFULL (N(n)->numElements >= MAXK)
#define PRE_INS (ROOTARGS && in_u(n) && WFI(n) && HELD(n) && pos <= N(n)->numElements && N(n)->children[pos] == N(pred)                \
    && in_u(newNode) && N(newNode) != N(n) && N(newNode)->parent != N(n) && N(pred)->numElements < MAXK                               \
    && keyp == (const void *)&N(pred)->keys[N(pred)->numElements]                                                                   \
    && N(newNode)->lock.st == 1 && N(newNode)->lock.invec == 1 && (!NFULL || (N(n)->lock.up == 1 && ALLUP)))
#define C_INS(u) ((NFULL && g_U[u] != N(pred) && g_U[u] != N(newNode) && g_U[u]->parent != N(pred) && g_U[u]->parent != N(newNode))  \
                  || (!NFULL && g_U[u] == N(n)))
#define INS_DECL(NAME)                                                                                                              \
void NAME(void *n, void *rootp, void *rlock, unsigned pos, void *pred, const void *keyp, void *newNode, void *vec)                 \
__CPROVER_requires(PRE_INS)                                                                                                         \
/* (one clause per case: in an assumed clause a pointer may be the subject of one __CPROVER_pointer_equals only) */               \
__CPROVER_ensures(__CPROVER_old(N(n)->numElements) >= MAXK ==> post_link(N(pred), N(newNode), __CPROVER_old(*(const int *)keyp)))    \
__CPROVER_ensures(__CPROVER_old(N(n)->numElements) < MAXK ==> post_ins_room(N(n), __CPROVER_old(*N(n)), pos, N(pred), N(newNode),   \
                  __CPROVER_old(*(const int *)keyp), OLDROOT, OLDPOOL))                                                             \
__CPROVER_ensures((__CPROVER_old(N(n)->numElements) >= MAXK && __CPROVER_old(N(n)->parent) == NULL) ==> post_rootsplit(OLDROOT, OLDPOOL)) \
__CPROVER_ensures(g_pool_n >= OLDPOOL)                                                                                              \
__CPROVER_assigns(N(pred)->parent, N(pred)->position, N(newNode)->parent, N(newNode)->position; CHILD_HDRS(n);                      \
                  NFULL: g_root, GHOSTS; FRAME_U(C_INS))
INS_DECL(h_ins);
INS_DECL(h_ins_rec);

/* ------------------------------------------------------------------------------------------------ split */
#define PRE_SPLIT (ROOTARGS && in_u(t) && N(t)->numElements == MAXK && N(t)->lock.st == 1 && N(t)->lock.up == 1 && ALLUP              \
    && (N(t)->inner == 0 || (WFI(t) && N(t)->lock.invec == 1)))
#define C_SPLIT(u) (g_U[u] != N(t) && g_U[u]->parent != N(t))
void h_split(void *t, void *rootp, void *rlock, int idx, void *vec)
__CPROVER_requires(PRE_SPLIT)
__CPROVER_ensures(post_split(N(t), __CPROVER_old(*N(t)), OLDPOOL))
__CPROVER_ensures(g_pool_n > OLDPOOL)
__CPROVER_assigns(__CPROVER_object_whole(t), g_root, GHOSTS; CHILD_HDRS(t); FRAME_U(C_SPLIT));

/* ------------------------------------------------------------------------------------------------ rebalance_or_split */
static VN *leftof(VN *x) { return (x->parent != NULL && x->position > 0) ? x->parent->children[x->position - 1] : NULL; }
static _Bool pre_left(VN *t) {
    VN *l = leftof(t);
    return l == NULL || (in_u(l) && l->inner == t->inner && l->numElements <= MAXK);
}
#define PRE_ROS (PRE_SPLIT && idx >= 0 && idx <= MAXK && pre_left(N(t)))
#define RV __CPROVER_return_value
int h_ros(void *t, void *rootp, void *rlock, int idx, void *vec)
__CPROVER_requires(PRE_ROS)
__CPROVER_ensures(RV >= 0 && RV <= idx)
__CPROVER_ensures(RV > 0 ==> (post_rebal(N(t), __CPROVER_old(*N(t)), RV, OLDROOT, OLDPOOL)
                              && post_rebal_frame(N(t), __CPROVER_old(*GU))))
__CPROVER_ensures(RV == 0 ==> (post_split(N(t), __CPROVER_old(*N(t)), OLDPOOL) && g_pool_n > OLDPOOL))
__CPROVER_assigns(__CPROVER_object_whole(t), g_root, GHOSTS; CHILD_HDRS(t); FRAME_U(C_SPLIT));

/* ------------------------------------------------------------------------------------------------ layout */
#ifdef VX_CANARY
#define CANARY __CPROVER_assert(0, "canary: reachable after the call under contract")
#else
#define CANARY
#endif

unsigned long h_layout(int w);
void harness_layout(void) {
    __CPROVER_assert(h_layout(0) == offsetof(VN, keys), "layout: sizeof(base)");
    __CPROVER_assert(h_layout(1) == offsetof(VN, children), "layout: sizeof(node)");
    __CPROVER_assert(h_layout(2) == sizeof(VN), "layout: sizeof(inner_node)");
    __CPROVER_assert(h_layout(3) == MAXK, "layout: node::maxKeys is VX_MAXK for the chosen blockSize");
    __CPROVER_assert(h_layout(4) == offsetof(VN, lock), "layout: offset of lock");
    __CPROVER_assert(h_layout(5) == offsetof(VN, numElements), "layout: offset of numElements");
    __CPROVER_assert(h_layout(6) == offsetof(VN, position), "layout: offset of position");
    __CPROVER_assert(h_layout(7) == offsetof(VN, inner), "layout: offset of inner");
    __CPROVER_assert(h_layout(8) == sizeof(struct vlock), "layout: sizeof(lock stub)");
    __CPROVER_assert(h_layout(9) == offsetof(struct vlock, invec), "layout: offset of lock.invec");
    __CPROVER_assert(h_layout(10) == sizeof(struct vvec) && h_layout(11) == offsetof(struct vvec, n), "layout: locked_nodes scaffold");
    CANARY;
}

/* ------------------------------------------------------------------------------------------------ harnesses */
/* universe roles */
#define A (g_U[0])
#define P (g_U[1])
#define GP (g_U[2])
#define CA(i) (g_U[3 + (i)])
#define CB(i) (g_U[4 + MAXK + (i)])
#define X (g_U[5 + 2 * MAXK])
#define Y (g_U[6 + 2 * MAXK])
static void universe(void) {
    for (int u = 0; u < NU; u++) {
        g_U[u] = malloc(sizeof(VN)); __CPROVER_assume(g_U[u] != NULL);
        __CPROVER_assume(g_U[u]->lock.st == 0 || g_U[u]->lock.st == 1);
        __CPROVER_assume(g_U[u]->lock.ends >= 0 && g_U[u]->lock.ends < 100 && g_U[u]->lock.aborts >= 0 && g_U[u]->lock.aborts < 100);
        __CPROVER_assume(g_U[u]->numElements <= MAXK && g_U[u]->position <= MAXK);
        __CPROVER_assume(g_U[u]->inner <= 1 && g_U[u]->lock.up <= 1 && g_U[u]->lock.invec <= 1);
        if (u >= POOL0) { g_U[u]->parent = NULL; g_U[u]->lock.up = 0; g_U[u]->lock.invec = 0; g_U[u]->lock.st = 0; g_U[u]->numElements = 0; }
    }
    g_pool_n = 0; g_root = NULL;
    __CPROVER_assume(g_rlock.st == 0 || g_rlock.st == 1);
    __CPROVER_assume(g_vec.n < 100);
    g_g = nondet_int(); g_j = nondet_int(); g_gu = nondet_int();
    __CPROVER_assume(g_g >= -1 && g_g <= MAXK + 1 && g_j >= -1 && g_j <= 2 * MAXK + 3 && g_gu >= -1 && g_gu <= NU);
}
/* node `n` is the parent of the slots ch(0..): children pointers set for i <= numElements; slot `self` (if >= 0) is occupied by `me` */
static void link_children(VN *n, int base, VN *me, int mypos) {
    n->inner = 1;
    for (int i = 0; i <= MAXK; i++) {
        VN *c = (me != NULL && i == mypos) ? me : g_U[base + i];
        if ((unsigned long)i <= n->numElements) { n->children[i] = c; c->parent = n; c->position = (unsigned char)i; }
        else if (c != me) { __CPROVER_assume(c->parent != n); }
    }
}
/* the part of the tree above A: A is the root, or A hangs below P (which is the root if it is full) */
static void above_A(void) {
    if (nondet_bool()) {
        A->parent = NULL; A->position = 0; g_root = A; __CPROVER_assume(g_rlock.st == 1);
        __CPROVER_assume(P->parent != A && GP->parent != A && X->parent != A && (Y->parent != A || (A->inner == 1 && Y->position <= A->numElements && A->children[Y->position] == Y)));
    } else {
        unsigned char pos = A->position; __CPROVER_assume(pos <= P->numElements);
        link_children(P, 4 + MAXK, A, pos);
        __CPROVER_assume(P->lock.st == 1 && P->lock.invec == 1);
        if (P->numElements == MAXK) { P->lock.up = 1; P->parent = NULL; P->position = 0; g_root = P; __CPROVER_assume(g_rlock.st == 1); }
        else { P->lock.up = 0; P->parent = nondet_bool() ? NULL : GP; if (P->parent == NULL) g_root = P; else { GP->inner = 1; __CPROVER_assume(P->position <= GP->numElements); GP->children[P->position] = P; } }
        __CPROVER_assume(GP->parent != A && X->parent != A && GP->parent != P && X->parent != P && (Y->parent != A || A->children[Y->position] == Y) && Y->parent != P);
    }
    A->lock.up = 1; A->lock.st = 1;
    /* no other node claims the ghost flag */
    for (int u = 2; u < NU; u++) g_U[u]->lock.up = 0;
}
static void children_of_A(void) {
    if (A->inner) { link_children(A, 3, NULL, -1); A->lock.invec = 1; }
    else for (int i = 0; i <= MAXK; i++) __CPROVER_assume(CA(i)->parent != A);
}

void harness_split(void) {
    universe();
    g_enf_ros = 0;
    A->numElements = MAXK;
    children_of_A();
    above_A();
    for (int i = 0; i <= MAXK; i++) __CPROVER_assume(CB(i)->parent != A);
#ifdef VX_DBG
    __CPROVER_assert(0, "dbg: reach before call");
    __CPROVER_assert(!allup(), "dbg: allup satisfiable");
    __CPROVER_assert(!(A->inner && wfi(A)), "dbg: wfi(A) satisfiable");
    __CPROVER_assert(!(A->parent != NULL), "dbg: parent case");
#endif
    h_split(A, &g_root, &g_rlock, nondet_int(), &g_vec);
    CANARY;
}
/* rebalance_or_split is checked in two complementary cases (their union is every state allowed by the precondition):
   REBAL: a left sibling exists, its lock is obtained, it has room and idx > 0  -> keys move to the left sibling;
   SPLIT: no left sibling, or its lock is busy, or it is full, or idx == 0      -> the node is split. */
static void harness_ros_common(_Bool rebal) {
    universe();
    A->numElements = MAXK;
    children_of_A();
    above_A();
    for (int i = 0; i <= MAXK; i++) __CPROVER_assume(CB(i)->parent != A);
    int idx = nondet_int();
    _Bool has_left = A->parent != NULL && A->position > 0;
    if (has_left) {
        VN *l = P->children[A->position - 1];
        __CPROVER_assume(l->inner == A->inner);
        S_L = *l; g_left0 = l;
        _Bool room = l->numElements < MAXK && idx > 0;
        if (rebal) { __CPROVER_assume(room && l->lock.st == 0); g_trylock = 1; }
        else { g_trylock = nondet_bool(); __CPROVER_assume(g_trylock == 0 || l->lock.st == 1 || !room); }
    } else __CPROVER_assume(!rebal);
    if (A->parent != NULL) S_P = *P;
    g_enf_ros = 1;
    h_ros(A, &g_root, &g_rlock, idx, &g_vec);
    CANARY;
}
void harness_ros_rebal(void) { harness_ros_common(1); }
void harness_ros_split(void) { harness_ros_common(0); }
void harness_grow(void) {
    universe();
    g_enf_ros = 0;
    __CPROVER_assume(A->numElements < MAXK);
    if (A->inner) A->lock.invec = 1;
    above_A();
    __CPROVER_assume(X->lock.st == 1 && X->lock.invec == 1 && X->inner == A->inner);
    for (int i = 0; i <= MAXK; i++) __CPROVER_assume(CB(i)->parent != A && CB(i)->parent != X && CA(i)->parent != A && CA(i)->parent != X);
    __CPROVER_assume(GP->parent != X && P->parent != X);
    h_grow(A, &g_root, &g_rlock, X, &g_vec);
    CANARY;
}
static void harness_ins_common(_Bool full) {
    universe();
    g_enf_ros = 0;
#ifdef VX_ANUM          /* shape parameters may be fixed by the harness instance (all values are enumerated): concrete control flow */
    A->numElements = VX_ANUM;
#endif
    __CPROVER_assume(full == (A->numElements >= MAXK));
    /* A is the inner node that receives (key, newNode = X) behind its child pred = Y (child number pos) */
    unsigned pos = nondet_ulong(); __CPROVER_assume(pos <= A->numElements);
    link_children(A, 3, Y, (int)pos);
    above_A();
    A->lock.invec = 1;
    if (A->numElements < MAXK) A->lock.up = nondet_bool();
    __CPROVER_assume(Y->numElements < MAXK);
    __CPROVER_assume(X->lock.st == 1 && X->lock.invec == 1);
    for (int i = 0; i <= MAXK; i++) __CPROVER_assume(CB(i)->parent != A && CB(i)->parent != X && CB(i)->parent != Y && CA(i)->parent != X && CA(i)->parent != Y);
    __CPROVER_assume(GP->parent != X && P->parent != X && GP->parent != Y && P->parent != Y && X->parent != Y && X->parent != X && X->parent != A);
    h_ins(A, &g_root, &g_rlock, pos, Y, &Y->keys[Y->numElements], X, &g_vec);
    CANARY;
}
/* insert_inner is checked in two complementary cases: the node has room / the node is full */
void harness_ins_room(void) { harness_ins_common(0); }
void harness_ins_full(void) { harness_ins_common(1); }
