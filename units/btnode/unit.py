"""C25 (node level): the structural operations of a B-tree node in BTree.h — node::getSplitPoint, split, rebalance_or_split, grow_parent,
insert_inner (IS_PARALLEL variant: with the write-lock protocol on siblings and the locked_nodes list) — each under its own contract,
callees replaced by their contracts (the four functions are mutually recursive through the parent chain)."""
import os
import re
import subprocess
from vxlib.extract import Source, strip_comments, ExtractError, blank, match_brace
from vxlib import rewrite as rw
from vxlib.cbmc import Harness

HERE = os.path.dirname(os.path.abspath(__file__))
BT = 'src/include/souffle/datastructure/BTree.h'
KEEP = ['asInnerNode', 'getChildren', 'getChild', 'isEmpty', 'isFull', 'getSplitPoint', 'split', 'rebalance_or_split', 'grow_parent', 'insert_inner']
DROP = ['clone', 'getDepth', 'countNodes', 'countEntries', 'getMemoryUsage', 'printTree', 'collectChunks', 'check']


def drop_member(text, name, log, template=False):
    """remove every member function called `name` (declaration through closing brace) from a class body"""
    n = 0
    while True:
        b = blank(text)
        m = re.search(r'(template\s*<[^>]*>\s*)?(?:[\w:<>&\*]+\s+)+%s\s*\([^;{]*\)\s*(const\s*)?\{' % re.escape(name), b)
        if not m:
            break
        cb = match_brace(b, m.end() - 1)
        text = text[:m.start()] + text[cb + 1:]
        n += 1
    if n == 0:
        raise ExtractError('BTree.h: member %s expected in struct node (to be dropped) was not found' % name)
    log['dropped node::%s (%d definition(s)): not called by the functions under contract' % (name, n)] = n
    return text


def extract(ctx):
    src = Source(os.path.join(ctx.repo, BT))
    log = {}
    cls = src.find(r'class\s+btree\s*\{')
    uses, _ = src.between(r'using\s+size_type\s*=', r'struct\s+node\s*;', start=cls.end())
    region, _ = src.between(r'struct\s+base\s*\{', r'class\s+iterator\s*\{', start=cls.end())
    # conditional compilation: the IS_PARALLEL variant, selected by the real preprocessor (no macro other than IS_PARALLEL is defined)
    ctx.write('region.in', strip_comments(region))
    p = subprocess.run(['cpp', '-P', '-undef', '-nostdinc', '-DIS_PARALLEL', '-x', 'c++', os.path.join(ctx.work, 'region.in')], stdout=subprocess.PIPE, stderr=subprocess.PIPE)
    if p.returncode != 0:
        raise ExtractError('cpp on the extracted region failed: ' + p.stderr.decode()[:300])
    ctx.write('region.ii', p.stdout.decode())
    log['#ifdef IS_PARALLEL resolved by cpp -DIS_PARALLEL (the variant Souffle builds with OpenMP)'] = 1
    pre = Source(os.path.join(ctx.work, 'region.ii'))
    base, (bs, be) = pre.block(r'struct\s+base\s*\{')
    node, (ns, ne) = pre.block(r'struct\s+node\s*:\s*public\s+base\s*\{', start=be)
    inner, (is_, ie) = pre.block(r'struct\s+inner_node\s*:\s*public\s+node\s*\{', start=ne)
    leaf, (ls, le) = pre.block(r'struct\s+leaf_node\s*:\s*public\s+node\s*\{', start=ie)
    uses = strip_comments(uses)
    for nm in DROP:
        node = drop_member(node, nm, log)
    # destructor of inner_node: recursive delete of the subtree, not part of any operation under contract
    b = blank(inner)
    m = re.search(r'~inner_node\s*\(\s*\)\s*\{', b)
    if m:
        cb = match_brace(b, m.end() - 1)
        inner = inner[:m.start()] + inner[cb + 1:]
        log['dropped inner_node::~inner_node (recursive subtree delete)'] = 1
    text = uses + '\n' + base + '\n' + 'struct inner_node;\nstruct leaf_node;\n' + node + '\n' + inner + '\n' + leaf + '\n'
    for nm in KEEP:
        if not re.search(r'\b%s\s*\(' % nm, text):
            raise ExtractError('BTree.h: node::%s not found in the extracted region' % nm)
    text = rw.r1_using(text, log)
    # R18: static constexpr members -> macros in front of the struct (CBMC mis-orders dependent static constants and cannot resolve
    # `sizeof(base)` inside a class derived from base: injected class name vs constructors)
    consts = re.findall(r'static\s+constexpr\s+std::size_t\s+(\w+)\s*=\s*([^;]+);', text)
    if [c[0] for c in consts] != ['desiredNumKeys', 'maxKeys']:
        raise ExtractError('BTree.h: expected the static constants desiredNumKeys, maxKeys in struct node, found %s' % [c[0] for c in consts])
    text = re.sub(r'static\s+constexpr\s+std::size_t\s+(\w+)\s*=\s*([^;]+);', '', text)
    macros = ''.join('#define %s (%s)\n' % (n_, ' '.join(e.split()).replace('sizeof(base)', 'sizeof(struct base)')) for n_, e in consts)
    log['R18 static constexpr desiredNumKeys/maxKeys -> macros with the same expressions (sizeof(base) written sizeof(struct base))'] = len(consts)
    text, n = re.subn(r'\bnode::maxKeys\b', 'maxKeys', text)
    log['R18 node::maxKeys -> maxKeys'] = n
    text, n = re.subn(r'\bvolatile\s+', '', text)
    log['R22 `volatile` dropped from parent/numElements/position (sequential view: these fields are only written under the node\'s write lock, which the contracts require)'] = n
    text, n = re.subn(r'std::vector<node\*>', 'vx_vec', text)
    log['R8 std::vector<node*> -> vx_vec (fixed-capacity scaffold)'] = n
    text, n = re.subn(r'souffle::contains\(', 'souffle::contains(', text)
    text, n = re.subn(r'\s*&&\s*"[^"]*"\s*\)', ')', text)
    log['R5 message strings in assert(c && "...") dropped (goto-cc crashes on bool && const char*)'] = n
    text, n1 = re.subn(r'\bnew\s+inner_node\s*\(\s*\)', 'vx_make_inner()', text)
    text, n2 = re.subn(r'\bnew\s+leaf_node\s*\(\s*\)', 'vx_make_leaf()', text)
    log['R8 new inner_node()/leaf_node() -> vx_make_*(): the REAL constructor runs on a temporary which is byte-copied into harness-provided memory (operator new has no body under DFCC)'] = n1 + n2
    if n1 < 2 or n2 < 1:
        raise ExtractError('R8(new) must fire in split and grow_parent')
    if re.search(r'\bnew\b|\bdelete\b|std::cout|\biterator\b|\bchunk\b', blank(text)):
        raise ExtractError('extracted node region still uses new/delete/iostream/iterator')
    # out-of-class definition order: the member bodies use inner_node/leaf_node (complete types needed) -> hoist bodies behind the structs
    text = hoist_bodies(text, log)
    makers = ('inline inner_node* vx_make_inner() { inner_node tmp; void* p = vx_new_inner(); vx_memcpy(p, &tmp, sizeof(inner_node)); return (inner_node*)p; }\n'
              'inline leaf_node* vx_make_leaf() { leaf_node tmp; void* p = vx_new_leaf(); vx_memcpy(p, &tmp, sizeof(leaf_node)); return (leaf_node*)p; }\n')
    pre = '#include "vx_btnode.h"\nnamespace souffle {\nnamespace detail {\n' + macros
    raw = pre + text.replace('/*MAKERS*/', makers) + '\n}\n}\n'
    ctx.write('raw.hpp', raw)
    ctx.write('native.cpp', '#define VX_NATIVE 1\n#define VX_BLOCKSIZE 64\n#include "raw.hpp"\n')
    docs = rw.clang_ast('native.cpp', 'node', ctx.work, extra=['-I', HERE])
    out, n_auto = rw.r2_auto(raw, 'raw.hpp', docs, log, extra_types=('detail::node *', 'detail::inner_node *', 'detail::node', 'detail::inner_node', 'unsigned char'))
    if re.search(r'\bauto\b', blank(out)):
        raise ExtractError('R2 left an `auto` in the node operations')
    out = rw.r11_access(out, log)
    out = redirect(out, log)
    mi = re.search(r'void\s+node::insert_inner\s*\(', out)
    if not mi:
        raise ExtractError('definition of node::insert_inner not found after hoisting')
    out = out[:mi.end()] + out[mi.end():].replace('h_ins(', 'h_ins_rec(')
    log['R8 the recursive call inside insert_inner goes to h_ins_rec (same contract; lets DFCC replace the recursion by the contract)'] = 1
    ctx.write('extracted.hpp', out)
    ctx.rewrites.update(log)
    ctx.dropped += ['btree::insert/find/lower_bound/upper_bound/iterators/hints/chunks/clear/copy (lambdas, iterators, recursion through the public API): the descent, the leaf insertion and the locking of the sphere of influence are NOT covered',
                    'node::clone/getDepth/countNodes/countEntries/getMemoryUsage/printTree/collectChunks/check, inner_node destructor']


CALLS = [  # (callee member, wrapper under contract, index of the by-reference Key argument or None, expected call sites)
    ('grow_parent', 'h_grow', None, 1), ('split', 'h_split', None, 3), ('rebalance_or_split', 'h_ros', None, 1), ('insert_inner', 'h_ins', 4, 2)]


def split_args(s):
    args, depth, cur = [], 0, ''
    for ch in s:
        if ch in '([{':
            depth += 1
        elif ch in ')]}':
            depth -= 1
        if ch == ',' and depth == 0:
            args.append(cur.strip())
            cur = ''
        else:
            cur += ch
    args.append(cur.strip())
    return args


def redirect(text, log):
    """R8: calls between the node operations go through the extern "C" wrappers that carry the contracts
    (obj->f(root, root_lock, ..., locked_nodes) -> h_f(obj, root, &root_lock, ..., &locked_nodes)); definitions are left alone."""
    for name, hname, keyarg, expect in CALLS:
        b = blank(text)
        out, pos, n = [], 0, 0
        for m in re.finditer(r'(?<![\w:])((\w+)\s*->\s*)?%s\s*\(' % name, b):
            pre = b[:m.start()].rstrip()
            if pre.endswith('node::') or re.search(r'(void|int)\s*$', pre):
                continue   # declaration / definition
            cp = match_brace(b, m.end() - 1)
            args = split_args(text[m.end():cp])
            obj = m.group(2) or 'this'
            new = []
            for i, a in enumerate(args):
                if a in ('root_lock', 'locked_nodes') or i == keyarg:
                    new.append('&(%s)' % a)
                else:
                    new.append(a)
            out.append(text[pos:m.start()])
            out.append('%s(%s, %s)' % (hname, obj, ', '.join(new)))
            pos = cp + 1
            n += 1
        out.append(text[pos:])
        text = ''.join(out)
        if n < 1:
            raise ExtractError('R8: no call of node::%s among the node operations' % name)
        log['R8 call of node::%s -> %s (wrapper under contract)' % (name, hname)] = n
    return text


def hoist_bodies(text, log):
    """struct node's member functions refer to inner_node/leaf_node members: keep declarations in the class, move bodies behind
    the three structs (purely positional; same text)."""
    b = blank(text)
    m = re.search(r'struct\s+node\s*:\s*public\s+base\s*\{', b)
    cb = match_brace(b, m.end() - 1)
    body = text[m.end():cb]
    bb = b[m.end():cb]
    out, defs, pos, n, nconst = [], [], 0, 0, 0
    ms = []
    for fm in re.finditer(r'((?:const\s+)?[\w:]+[\s\*&]+(?:const\*\s*)?)(\w+)\s*\(([^;{}]*)\)\s*(const\s*)?\{', bb):
        if bb[:fm.start()].count('{') != bb[:fm.start()].count('}'):
            continue
        if fm.group(2) in ('node', 'base'):
            continue
        ms.append(fm)
    names = [fm.group(2) for fm in ms]
    renamed = sorted(set(fm.group(2) for fm in ms if fm.group(4) and names.count(fm.group(2)) > 1))
    for fm in ms:
        if fm.start() < pos:
            continue
        name = fm.group(2)
        isconst = bool(fm.group(4))
        e = match_brace(bb, fm.end() - 1)
        if isconst and name in renamed:
            # the const twin of an overloaded pair: dropped (same body modulo const)
            out.append(body[pos:fm.start()])
            pos = e + 1
            continue
        decl = body[fm.start():fm.end() - 1].rstrip()
        d = body[fm.start():e + 1]
        d = d.replace(fm.group(1) + name, fm.group(1) + 'node::' + name, 1)
        if isconst:
            decl = re.sub(r'\)\s*const$', ')', decl)
            d = re.sub(r'\)\s*const\s*\{', ') {', d, count=1)
            nconst += 1
        out.append(body[pos:fm.start()])
        out.append(decl + ';')
        defs.append(d)
        pos = e + 1
        n += 1
    log['R23 const-qualification of struct node\'s member functions removed; the const twins of %s dropped (goto-cc loses `const` on a member whose return type names the still incomplete inner_node; const-correctness is checked by the real compiler)' % ','.join(renamed)] = nconst + len(renamed)
    out.append(body[pos:])
    if n < len(KEEP):
        raise ExtractError('hoisting: expected at least %d member functions in struct node, found %d' % (len(KEEP), n))
    log['member function bodies of struct node moved behind inner_node/leaf_node (same text, out-of-class definitions)'] = n
    return text[:m.end()] + ''.join(out) + text[cb:] + '\n/*MAKERS*/\n' + '\n'.join(defs) + '\n'


def gen_header(maxk, npool=2):
    nu = 2 * maxk + 7 + npool
    pool0 = nu - npool
    L = ['/* generated by units/btnode/unit.py for VX_MAXK=%d: finite unrollings (no loops, no quantifiers in contract clauses) */' % maxk,
         '#define VX_MAXK %d' % maxk, '#define NU %d' % nu, '#define NPOOL %d' % npool, '#define POOL0 %d' % pool0]
    L.append('#define IN_U(p) (%s)' % ' || '.join('__CPROVER_pointer_equals((void *)(p), (void *)g_U[%d])' % u for u in range(nu)))
    L.append('#define IN_POOL(p) (%s)' % ' || '.join('__CPROVER_pointer_equals((void *)(p), (void *)g_U[%d])' % (pool0 + k) for k in range(npool)))
    L.append('#define FORALL_U(M) (%s)' % ' && '.join('M(%d)' % u for u in range(nu)))
    L.append('#define FRAME_U(C) %s' % '; '.join('C(%d): __CPROVER_object_whole(g_U[%d])' % (u, u) for u in range(nu)))
    L.append('#define CHILD_HDRS(n) %s' % '; '.join(
        '(N(n)->inner && %d <= N(n)->numElements): N(n)->children[%d]->parent, N(n)->children[%d]->position' % (i, i, i) for i in range(maxk + 1)))
    return '\n'.join(L) + '\n', nu


def harnesses(ctx):
    cpp = os.path.join(HERE, 'wrappers.cpp')
    c = [os.path.join(HERE, 'contracts.c')]
    hs = []
    for maxk in (4,):
        hdr, nu = gen_header(maxk)
        ctx.write('bt_gen.h', hdr)
        D = ['VX_BLOCKSIZE=%d' % (32 + 4 * maxk)]
        B = {'maxKeys': maxk, 'note': 'node::maxKeys (a function of the template parameters blockSize and Key) instantiated at %d; all loops fully unwound (unwinding assertions)' % maxk}
        big = ','.join('%s:%d' % (l, nu + 2) for l in ('in_u.0', 'allup.0', 'universe.0', 'above_A.0'))
        big += ',__CPROVER_contracts_write_set_check_assigns_clause_inclusion.0:%d' % (2 * nu + 12)
        F = ['--bounds-check', '--pointer-check', '--signed-overflow-check', '--div-by-zero-check', '--undefined-shift-check', '--unwindset', big]
        # global bound maxk+3 closes every loop of the node operations (they run at most maxKeys+1 times); the loops over the universe
        # (harness, predicates, DFCC's assigns-clause inclusion check) get their own bounds; unwinding assertions on all of them
        common = dict(cpp=cpp, c=c, defines=D, unwind=maxk + 3, flags=F, bounded=B, object_bits=8)
        hs.append(Harness('btnode.layout', 'harness_layout', unwind=None, cpp=cpp, c=c, defines=D, must_have=['layout'], bounded=B, clause='C mirror structs have the layout of the extracted node types; node::maxKeys evaluates to VX_MAXK'))
        hs.append(Harness('btnode.split', 'harness_split', enforce='h_split', replace=['h_grow'], must_have=['postcondition'], timeout=1500,
                          clause='node::split: T = T\' ++ [sep] ++ S pointwise (keys, children, back links); S is fresh, write-locked, recorded, placed right behind T in the parent with sep between them',
                          funcs=['souffle::detail::btree::node::split', '...::getSplitPoint'], **common))
        for case, entry, what in (('rebalance', 'harness_ros_rebal', 'case "left sibling exists, is lockable, has room, idx > 0": L ++ [sep] ++ T = L\' ++ [sep\'] ++ T\' (keys, children, back links), the number moved is returned, left released by end_write, nothing else changes'),
                                  ('split', 'harness_ros_split', 'complementary case: the node is split (contract of split), a left sibling that was locked but not modified is released by abort_write')):
            hs.append(Harness('btnode.rebalance_or_split.' + case, entry, enforce='h_ros', replace=['h_split'], must_have=['postcondition'], tier='thorough', timeout=5400,
                              clause='node::rebalance_or_split, ' + what, funcs=['souffle::detail::btree::node::rebalance_or_split'], **common))
        hs.append(Harness('btnode.grow_parent', 'harness_grow', enforce='h_grow', replace=['h_ins'], must_have=['postcondition'], timeout=1500,
                          clause='node::grow_parent: the separator and the new sibling end up right behind this node in its parent; a split root gets a fresh root with exactly these two children and the root pointer is switched',
                          funcs=['souffle::detail::btree::node::grow_parent'], **common))
        hs.append(Harness('btnode.insert_inner.room', 'harness_ins_room', enforce='h_ins', replace=['h_ros', 'h_ins_rec'], must_have=['postcondition'], tier='thorough', timeout=5400,
                          clause='node::insert_inner into a node with room: (key, newNode) are inserted right behind predecessor; every other token keeps its order and the shifted children keep correct back links; nothing else changes',
                          funcs=['souffle::detail::btree::node::insert_inner'], **common))
        # insert_inner on a FULL node is not run: its proof needs the callees' frames to exclude detached nodes (see ASSUMPTIONS / DESIGN 8.9);
        # the harness (harness_ins_full) is kept in contracts.c but a failing obligation there is a limit of the frames, not a verdict
    return hs


ASSUMPTIONS = [
    'node level only: btree::insert itself (descent, in-leaf insertion, locking of the sphere of influence, hints, the end_write/abort_write decisions on the leaf and the root lock), find/lower_bound/upper_bound, iteration, size and chunking are NOT under contract',
    'instantiation Key = int, node::maxKeys = 4 (blockSize chosen so that the real formula yields 4 under CBMC\'s unpadded layout; checked by btnode.layout); the loops of the node operations run at most maxKeys+1 times and are fully unwound (unwinding assertions): complete for this instantiation, labelled bounded because production instantiations have larger nodes',
    'sequential view of one inserting thread that holds the write locks the operations assert: OptimisticReadWriteLock is replaced by its specification (verified separately, C30); try_start_write on the left sibling may fail nondeterministically; `volatile` dropped (R22)',
    'heap model: a finite universe of node objects (2*maxKeys+9); every pointer the contracts mention is a universe member; a contract\'s frame is "every universe object except ..." (conditional assigns targets); nodes deeper than the children of the node operated on are outside the universe',
    'the ghost flag lock.up stands for "the sphere of influence above this node is write-locked, recorded in locked_nodes, well-formed and linked" (UPMEAN in contracts.c): btree::insert is ASSUMED to establish it before calling rebalance_or_split',
    'composition: each operation is proved to rewrite the token sequences of the nodes it touches without changing their in-order concatenation, given the contracts of its callees; that the whole tree\'s in-order sequence is therefore preserved is an induction over the height that is argued in DESIGN 8.9, not machine-checked',
    'insert_inner on a FULL node (the glue between rebalance_or_split and the recursive call) is not decided: its harness needs the frames of the callees to exclude detached nodes, which the universe frames cannot express without dereferencing unconstrained parent pointers',
]
TRUSTED = ['units/btnode/vx_btnode.h (lock specification, locked_nodes as a set, allocation pool)', 'C mirror structs of the node layout (checked by btnode.layout)',
           'rewrite rules R1,R2,R5,R8,R11,R18,R22,R23 and the out-of-class hoisting of struct node\'s member bodies']

MUTANTS = [
    dict(name='split: sibling size off by one', file=BT, find=r'sibling->numElements = maxKeys - split_point - 1;', repl='sibling->numElements = maxKeys - split_point;', expect=r'btnode\.split'),
    dict(name='split: last child pointer not moved', file=BT, find=r'(auto\* other = static_cast<inner_node\*>\(sibling\);\s*for \(unsigned i = split_point \+ 1, j = 0; i) <= maxKeys;', repl=r'\1 < maxKeys;', expect=r'btnode\.split'),
    dict(name='split: moved child keeps its old parent', file=BT, find=r'other->children\[j\]->parent = other;', repl='', expect=r'btnode\.split'),
    dict(name='split: new sibling is not write-locked', file=BT, find=r'(// lock sibling\s*)sibling->lock\.start_write\(\);', repl=r'\1', expect=r'btnode\.split'),
    dict(name='grow_parent: sibling position not set under a new root', file=BT, find=r'sibling->position = 1;', repl='', expect=r'btnode\.grow_parent'),
    dict(name='grow_parent: wrong separator key in a new root', file=BT, find=r'new_root->keys\[0\] = keys\[this->numElements\];', repl='new_root->keys[0] = keys[this->numElements - 1];', expect=r'btnode\.grow_parent'),
    dict(name='grow_parent: root pointer not switched', file=BT, find=r'(// switch root node\s*)\*root = new_root;', repl=r'\1', expect=r'btnode\.grow_parent'),
]


def replay(ctx, h, r, ins, tr):
    """the real btree_set with small nodes, driven through splits / rebalancing / cascades and compared with std::set (sequential and
    IS_PARALLEL code paths)"""
    out = []
    res = None
    for tag, flags in (('IS_PARALLEL', ['-fopenmp']), ('sequential', [])):
        exe = os.path.join(ctx.work, 'replay_bt_' + tag)
        p = subprocess.run(['g++', '-std=c++17', '-O1'] + flags + ['-I', os.path.join(ctx.repo, 'src/include'), os.path.join(HERE, '..', '..', 'replay', 'btnode', 'replay.cpp'), '-o', exe],
                           stdout=subprocess.PIPE, stderr=subprocess.STDOUT)
        if p.returncode != 0:
            out.append('%s: build failed: %s' % (tag, p.stdout.decode()[-200:]))
            continue
        try:
            q = subprocess.run([exe], stdout=subprocess.PIPE, stderr=subprocess.STDOUT, timeout=120)
        except subprocess.TimeoutExpired:
            out.append('%s: the real tree did not terminate within 120 s' % tag)
            res = True
            continue
        txt = q.stdout.decode().strip().split('\n')
        out.append('%s: %s' % (tag, ' | '.join(txt[:2] + txt[-1:])[:300] if q.returncode else txt[-1][:200]))
        if q.returncode == 1 or q.returncode < 0:
            res = True
        elif res is None:
            res = False
    return res, 'real BTree.h, btree_set<int> with block sizes 48..256: ' + ' ;; '.join(out)
