#include "extracted.hpp"
using namespace souffle;
using namespace souffle::detail;
extern "C" {
void h_split(void* t, void* rootp, void* rlock, int idx, void* vec) { ((node*)t)->split((node**)rootp, *(lock_type*)rlock, idx, *(vx_vec*)vec); }
int h_ros(void* t, void* rootp, void* rlock, int idx, void* vec) { return ((node*)t)->rebalance_or_split((node**)rootp, *(lock_type*)rlock, idx, *(vx_vec*)vec); }
void h_grow(void* t, void* rootp, void* rlock, void* sib, void* vec) { ((node*)t)->grow_parent((node**)rootp, *(lock_type*)rlock, (node*)sib, *(vx_vec*)vec); }
void h_ins(void* n, void* rootp, void* rlock, unsigned pos, void* pred, const void* keyp, void* newNode, void* vec) {
    ((node*)n)->insert_inner((node**)rootp, *(lock_type*)rlock, pos, (node*)pred, *(const Key*)keyp, (node*)newNode, *(vx_vec*)vec);
}
void h_ins_rec(void* n, void* rootp, void* rlock, unsigned pos, void* pred, const void* keyp, void* newNode, void* vec) {
    ((node*)n)->insert_inner((node**)rootp, *(lock_type*)rlock, pos, (node*)pred, *(const Key*)keyp, (node*)newNode, *(vx_vec*)vec);
}
unsigned long h_layout(int w) {
    inner_node* z = (inner_node*)0;
    switch (w) {
    case 0: return sizeof(base);
    case 1: return sizeof(node);
    case 2: return sizeof(inner_node);
    case 3: return maxKeys;
    case 4: return (unsigned long)&z->lock;
    case 5: return (unsigned long)&z->numElements;
    case 6: return (unsigned long)&z->position;
    case 7: return (unsigned long)&z->inner;
    case 8: return sizeof(OptimisticReadWriteLock);
    default: return (unsigned long)&z->lock.invec - (unsigned long)&z->lock;
    }
}
}
