// Scaffold for the node-level operations of souffle::detail::btree (BTree.h), TRUSTED.
//  - the class-template context of btree<Key,...> reduced to what struct base/node/inner_node/leaf_node use:
//    Key = int, blockSize = VX_BLOCKSIZE (chosen so that the REAL formula for node::maxKeys yields VX_MAXK under CBMC's unpadded layout)
//  - OptimisticReadWriteLock replaced by its sequential specification seen from the one thread that owns the operation
//    (the lock itself is verified separately: property C30); it carries the ghost flag `up`
//  - std::vector<node*> -> vx_vec (membership: ghost flag in the node; the first VX_VEC_CAP entries are kept in order), souffle::contains(vector, x)
#ifndef VX_BTNODE_H
#define VX_BTNODE_H
#include <cstddef>
#include <cstdint>
#include <cassert>
#include <algorithm>
#ifdef VX_NATIVE
#define VX_CHECK(c, msg) ((void)0)
inline bool vx_nondet_bool() { return true; }
#else
#define VX_CHECK(c, msg) __CPROVER_assert((c), msg)
extern "C" bool vx_nondet_bool(void);
#endif
#ifdef VX_NATIVE
inline void vx_vec_mark(void*) {}
inline void vx_upgraded() {}
inline bool vx_restart() { return false; }
inline bool vx_vec_has(const void*) { return true; }
inline void* vx_new_inner(void) { return 0; }
inline void* vx_new_leaf(void) { return 0; }
inline void* vx_memcpy(void* d, const void*, unsigned long) { return d; }
inline void h_grow(void*, void*, void*, void*, void*) {}
inline void h_split(void*, void*, void*, int, void*) {}
inline int h_ros(void*, void*, void*, int, void*) { return 0; }
inline void h_ins(void*, void*, void*, unsigned, void*, const void*, void*, void*) {}
inline void h_ins_rec(void*, void*, void*, unsigned, void*, const void*, void*, void*) {}
#else
// (declared at global scope: goto-cc gives an extern "C" declaration inside a namespace a namespaced symbol)
extern "C" {
void vx_vec_mark(void* x);
void vx_upgraded(void);          // ghost: the leaf lease was upgraded to a write lock
bool vx_restart(void);           // the whole operation is restarted (recursive insert): opaque
bool vx_vec_has(const void* x);
void* vx_new_inner(void);
void* vx_new_leaf(void);
void* vx_memcpy(void*, const void*, unsigned long);
// the node operations as seen by each other: wrappers that carry the contracts (contracts.c)
void h_grow(void*, void*, void*, void*, void*);
void h_split(void*, void*, void*, int, void*);
int h_ros(void*, void*, void*, int, void*);
void h_ins(void*, void*, void*, unsigned, void*, const void*, void*, void*);
void h_ins_rec(void*, void*, void*, unsigned, void*, const void*, void*, void*);
}
#endif
namespace souffle {
struct OptimisticReadWriteLock {
    int st;       // 1: write-held by the thread under verification; 0: not held by it
    int ends;     // ghost: number of end_write() calls (version bumps that invalidate optimistic readers)
    int aborts;   // ghost: number of abort_write() calls (version restored: readers are NOT invalidated)
    bool up;      // ghost: "the sphere of influence above this node is locked" (meaning given in contracts.c)
    bool invec;   // ghost: the node owning this lock has been pushed onto locked_nodes
    OptimisticReadWriteLock() : st(0), ends(0), aborts(0), up(false), invec(false) {}
    struct Lease { int version; };
    // upgrade of a read lease: fails whenever the version moved since the lease (nondeterministic here), otherwise the lock is held
    bool try_upgrade_to_write(const Lease&) { if (st == 1) return false; if (!vx_nondet_bool()) return false; st = 1; vx_upgraded(); return true; }
    bool is_write_locked() const { return st == 1; }
    void start_write() { VX_CHECK(st == 0, "lock: start_write on a lock this thread already holds (self-deadlock)"); st = 1; }
    bool try_start_write() { if (st == 1) return false; if (!vx_nondet_bool()) return false; st = 1; return true; }
    void end_write() { VX_CHECK(st == 1, "lock: end_write without holding the write lock"); st = 0; if (ends < 1000) ++ends; }
    void abort_write() { VX_CHECK(st == 1, "lock: abort_write without holding the write lock"); st = 0; if (aborts < 1000) ++aborts; }
};
namespace detail {
struct node;
}
// locked_nodes as a SET (membership is all the node operations use): push_back marks the node's ghost flag `invec`
#ifndef VX_VEC_CAP
#define VX_VEC_CAP 6
#endif
struct vx_vec {
    detail::node* d[VX_VEC_CAP];   // the first VX_VEC_CAP entries in order (btree::insert releases them in reverse order)
    std::size_t n;
    vx_vec() : n(0) {}
    void push_back(detail::node* x) { if (x) vx_vec_mark((void*)x); if (n < VX_VEC_CAP) *(d + n) = x; if (n < 1000) ++n; }
    struct rit {
        vx_vec* v; long i;
        bool operator!=(const rit& o) const { return i != o.i; }
        rit& operator++() { --i; return *this; }
        detail::node* operator*() const { return *(v->d + i); }
    };
    rit rbegin() { VX_CHECK(n <= VX_VEC_CAP, "scaffold: locked_nodes capacity (harness bound)"); rit r; r.v = this; r.i = (long)n - 1; return r; }
    rit rend() { rit r; r.v = this; r.i = -1; return r; }
};
inline bool contains(const vx_vec&, const detail::node* x) { return vx_vec_has((const void*)x); }
struct vx_hints { struct vx_last { void access(const void*) {} } last_insert; };
namespace detail {
typedef int Key;
#define blockSize VX_BLOCKSIZE
}
}
#endif
