/* C29 / C28(closure) — contracts, ghost state, rely/guarantee and loop hooks for the REAL souffle::DisjointSet.
 *
 * Shared state: node array S.s.blk[0..n)   (block = parent << 8 | rank), every access goes through the stub std::atomic,
 *               i.e. through vx_yield() (environment) and vx_step() (ghost monitor).
 * Ghost state : frank[i] = rank node i had when it stopped being a root; set[i] = label of i's class (the partition).
 * Order       : key(i) = (is_root(i) ? rank(i) : frank[i], i), lexicographic.
 * INV         : parents in range; every non-root i has key(i) < key(parent(i)) [=> no cycle except root self-loops] and
 *               is in its parent's class; distinct roots are in distinct classes [=> forest partition == ghost partition];
 *               2^rank(r) <= |class(r)| for roots [=> ranks bounded].
 * EVOLVE(a,b) : what any number of steps of any threads may do: INV(b), non-roots stay non-roots with their frozen rank,
 *               keys never decrease, classes only merge.
 * Node count is bounded by N (the only bound).  */
#include <stddef.h>
#include <stdint.h>

#ifndef VX_N
#define VX_N 4
#endif
#define N VX_N

struct uf {
    unsigned long blk[N];
    unsigned char frank[N];
    unsigned char set[N];
    unsigned long n;
};
struct ghost {
    struct uf s;                     /* current shared + ghost state */
    struct uf snap, prev, prev2;     /* states at the instants of this thread's three most recent loads */
    struct uf entry_fn;              /* findNode's loop-entry state recorded by its hook */
    unsigned long nsteps_chg;        /* own steps that changed a node, saturating */
    unsigned long merges;            /* own link steps, saturating at 3 */
    _Bool f_fn;
    unsigned long fresh;             /* node created by this thread and not yet initialised (N = none) */
} S;
struct hooks { struct uf entry_ss, entry_un; _Bool f_ss, f_un; } H;   /* hook state of sameSet / unionNodes (not touched by findNode) */
struct request {                     /* set by the harness, never assigned by the methods */
    _Bool req_on; unsigned long req_x, req_y;   /* this thread's in-progress unionNodes request */
    unsigned long x0, y0;            /* arguments of the call under contract */
} Q;
char g_ds;                           /* the DisjointSet object (its only member is the scaffold PiggyList) */

int nondet_int(void); unsigned long nondet_ulong(void); _Bool nondet_bool(void); unsigned char nondet_uchar(void);
_Bool vx_nondet_bool(void) { return nondet_bool(); }

/* ------------------------------------------------------------------ state functions */
static unsigned long par(const struct uf *s, unsigned long i) { return s->blk[i] >> 8; }
static unsigned rk(const struct uf *s, unsigned long i) { return (unsigned)(s->blk[i] & 255ul); }
static _Bool isroot(const struct uf *s, unsigned long i) { return par(s, i) == i; }
static unsigned keyrank(const struct uf *s, unsigned long i) { return isroot(s, i) ? rk(s, i) : s->frank[i]; }
static _Bool keylt(const struct uf *s, unsigned long i, unsigned long j) {
    return keyrank(s, i) < keyrank(s, j) || (keyrank(s, i) == keyrank(s, j) && i < j);
}
/* csize, INV, EVOLVE, STILL are generated, fully unrolled for N (loop- and assignment-free expressions: units/unionfind/unit.py
   writes uf_gen.h each run).  Their definitions, for reference:
     csize(s,l)  = |{k < n : set[k] == l}|
     INV(s)      = n <= N  and for all i < n: par(i) < n, set[i] < N,
                   non-root i: key(i) < key(par(i)) and set[i] == set[par(i)]
                   root i    : rank(i) < 8, 2^rank(i) <= csize(set[i]), no other root j < n has set[j] == set[i]
     EVOLVE(a,b) = INV(b), b.n == a.n, for all i < n: (non-root in a => non-root in b with the same frozen rank),
                   keyrank_b(i) >= keyrank_a(i), for all j < n: a.set[i] == a.set[j] => b.set[i] == b.set[j]
     STILL(a,b)  = b.n == a.n, for all i < n: root-ness, ranks of roots and class labels unchanged */
#if VX_N == 3
#include "uf_gen_3.h"
#elif VX_N == 4
#include "uf_gen_4.h"
#elif VX_N == 5
#include "uf_gen_5.h"
#else
#error "no generated predicates for this VX_N"
#endif
static _Bool same(const struct uf *s, unsigned long i, unsigned long j) { return s->set[i] == s->set[j]; }
/* sequential functional contract of a union: classes afterwards = classes before with class(x) and class(y) merged */
static _Bool MERGED(const struct uf *a, const struct uf *b, unsigned long x, unsigned long y) {
    if (b->n != a->n) return 0;
    for (unsigned long i = 0; i < N; i++) for (unsigned long j = 0; j < N; j++) if (i < a->n && j < a->n) {
        _Bool want = same(a, i, j) || (same(a, i, x) && same(a, j, y)) || (same(a, i, y) && same(a, j, x));
        if (same(b, i, j) != want) return 0;
    }
    return 1;
}
/* by-value forms for contract clauses (history values cannot be addressed) */
static _Bool INVv(struct uf a) { return INV(&a); }
static _Bool EVOLVEv(struct uf a, struct uf b) { return EVOLVE(&a, &b); }
static _Bool STILLv(struct uf a, struct uf b) { return STILL(&a, &b); }
static _Bool MERGEDv(struct uf a, struct uf b, unsigned long x, unsigned long y) { return MERGED(&a, &b, x, y); }
static _Bool samev(struct uf a, unsigned long i, unsigned long j) { return same(&a, i, j); }
static _Bool isrootv(struct uf a, unsigned long i) { return isroot(&a, i); }
static unsigned rkv(struct uf a, unsigned long i) { return rk(&a, i); }

/* one step by a thread on node i: block o -> nw.  Returns 0 and updates *s (incl. ghost) if the step is allowed:
   1 parent out of range / non-root made a root again, 2 path-halving target not a same-class node with a larger key,
   3 link target does not have a larger key than the linked root, 4 rank change that is not +1 */
static int mon_step(struct uf *s, unsigned long i, unsigned long o, unsigned long nw, _Bool *linked, unsigned long *ltarget) {
    *linked = 0;
    if (nw == o) return 0;
    unsigned long po = o >> 8, pn = nw >> 8; unsigned ro = (unsigned)(o & 255ul), rn = (unsigned)(nw & 255ul);
    if (!(pn < s->n)) return 1;
    if (po == i) {                                   /* i was a root */
        if (pn == i) {                               /* rank change */
            if (rn != ro + 1u) return 4;
            s->blk[i] = nw; return 0;
        }
        struct uf t = *s;                            /* link i under pn */
        if (!keylt(&t, i, pn)) return 3;
        s->frank[i] = (unsigned char)ro;
        unsigned char from = s->set[i], to = s->set[pn];
        for (unsigned long k = 0; k < N; k++) if (k < s->n && s->set[k] == from) s->set[k] = to;
        s->blk[i] = nw; *linked = 1; *ltarget = pn; return 0;
    }
    if (pn == i) return 1;                           /* a non-root never becomes a root again */
    if (!(s->set[i] == s->set[pn] && keylt(s, i, pn))) return 2;   /* path halving / compression */
    s->blk[i] = nw; return 0;
}

/* ------------------------------------------------------------------ environment and monitor */
void vx_yield(void) {
#ifndef VX_SEQ
    struct uf b;
    __CPROVER_assume(EVOLVE(&S.s, &b));
    S.s = b;
#endif
}
void vx_step(void *obj, int kind, unsigned long oldv, unsigned long newv) {
    (void)kind;
    unsigned long *cell = (unsigned long *)obj;
    __CPROVER_assert(__CPROVER_same_object(cell, S.s.blk) && cell >= S.s.blk && cell < S.s.blk + N, "atomic operation is on a node cell");
    unsigned long i = (unsigned long)(cell - S.s.blk);
    __CPROVER_assert(i < S.s.n, "atomic operation is on a node in use");
    __CPROVER_assert(S.s.blk[i] == newv, "stub consistency: cell holds the new value");
    struct uf pre = S.s; pre.blk[i] = oldv;           /* state at the instant of the step */
    S.prev2 = S.prev; S.prev = S.snap; S.snap = pre;
    if (i == S.fresh) {                              /* initialisation of the node this thread has just created */
        __CPROVER_assert(newv == (i << 8), "G.init: a new node is initialised as its own root with rank 0");
        S.fresh = N;
        __CPROVER_assert(INV(&S.s), "INV after initialising a new node");
        return;
    }
    struct uf t = pre; _Bool linked; unsigned long lt;
    int code = mon_step(&t, i, oldv, newv, &linked, &lt);
    __CPROVER_assert(code != 1, "G.range: new parent in range; a non-root never becomes a root again");
    __CPROVER_assert(code != 2, "G.halve: a non-root is re-pointed only to a same-class node with a larger key (an ancestor)");
    __CPROVER_assert(code != 3, "G.link: a root is linked only under a node whose key is larger (no cycle)");
    __CPROVER_assert(code != 4, "G.rank: a root's rank changes only by +1");
    if (code == 0) {
        if (linked) {
            __CPROVER_assert(Q.req_on && ((same(&pre, i, Q.req_x) && same(&pre, lt, Q.req_y)) || (same(&pre, i, Q.req_y) && same(&pre, lt, Q.req_x))),
                             "G.merge: a merge joins the classes of the arguments of this thread's unionNodes request");
            if (S.merges < 3) S.merges++;
        }
        if (newv != oldv && S.nsteps_chg < 3) S.nsteps_chg++;
        S.s = t;
    }
    if (newv != oldv)
        __CPROVER_assert(INV(&S.s), "INV after own step (parents in range, keys increase along links: no cycle, classes consistent, ranks bounded)");
    /* that an allowed INV-preserving step is within EVOLVE is lemma_guarantee_within_rely */
}
/* scaffold PiggyList over the node array */
void *vx_uf_cell(unsigned long i) {
    __CPROVER_assert(i < S.s.n, "node index in range (PiggyList::get precondition)");
    return &S.s.blk[i];
}
unsigned long vx_uf_size(void) { return S.s.n; }
unsigned long vx_uf_create(void) {
    __CPROVER_assert(S.s.n < N, "createNode within the bound");
    unsigned long k = S.s.n; S.s.n = k + 1; S.fresh = k; return k;
}

/* ------------------------------------------------------------------ loop hooks */
#ifdef VX_SEQ
#define QUIET(a) STILL((a), &S.s)
#else
#define QUIET(a) 1
#endif
static void havoc_state(void) { struct uf b; S.s = b; struct uf c; S.snap = c; struct uf d; S.prev = d; struct uf e; S.prev2 = e; }

/* findNode.0: while (x != b2p(get(x))) { ...halve... x = newParent; } */
static _Bool I_fn(unsigned long x) {
    return x < S.s.n && EVOLVE(&S.entry_fn, &S.s) && same(&S.s, x, Q.x0) && S.merges == 0 && QUIET(&S.entry_fn);
}
void vx_enter_findNode_0(void) { S.f_fn = 1; }
_Bool vx_head_findNode_0(unsigned long *x) {
    if (S.f_fn) {
        __CPROVER_assert(I_fn(*x), "loop findNode.0 invariant base");
        havoc_state(); *x = nondet_ulong();
        __CPROVER_assume(I_fn(*x));
        S.f_fn = 0;
    } else {
        __CPROVER_assert(I_fn(*x), "loop findNode.0 invariant step");
        __CPROVER_assume(0);
    }
    return 1;
}
/* sameSet.0 / unionNodes.0: while (true) { x = findNode(x); y = findNode(y); ... } */
static _Bool I_ss(unsigned long x, unsigned long y) {
    return x < S.s.n && y < S.s.n && EVOLVE(&H.entry_ss, &S.s) && same(&S.s, x, Q.x0) && same(&S.s, y, Q.y0) && S.merges == 0 && QUIET(&H.entry_ss);
}
void vx_enter_sameSet_0(void) { H.f_ss = 1; }
_Bool vx_head_sameSet_0(unsigned long *x, unsigned long *y) {
    if (H.f_ss) {
        __CPROVER_assert(I_ss(*x, *y), "loop sameSet.0 invariant base");
        havoc_state(); *x = nondet_ulong(); *y = nondet_ulong();
        __CPROVER_assume(I_ss(*x, *y));
        H.f_ss = 0;
    } else {
        __CPROVER_assert(I_ss(*x, *y), "loop sameSet.0 invariant step");
        __CPROVER_assume(0);
    }
    return 1;
}
static _Bool I_un(unsigned long x, unsigned long y) {
    return x < S.s.n && y < S.s.n && EVOLVE(&H.entry_un, &S.s) &&
           /* the code may swap x and y (std::swap) before retrying */
           ((same(&S.s, x, Q.x0) && same(&S.s, y, Q.y0)) || (same(&S.s, x, Q.y0) && same(&S.s, y, Q.x0))) &&
           Q.req_on && Q.req_x == Q.x0 && Q.req_y == Q.y0
#ifdef VX_SEQ
           && STILL(&H.entry_un, &S.s)     /* nothing has changed until the link succeeds (then the loop is left) */
#endif
           ;
}
void vx_enter_unionNodes_0(void) { H.f_un = 1; }
_Bool vx_head_unionNodes_0(unsigned long *x, unsigned long *y) {
    if (H.f_un) {
        __CPROVER_assert(I_un(*x, *y), "loop unionNodes.0 invariant base");
        unsigned long m = S.merges;
        havoc_state(); *x = nondet_ulong(); *y = nondet_ulong(); S.merges = m;
        __CPROVER_assume(I_un(*x, *y));
        H.f_un = 0;
    } else {
        __CPROVER_assert(I_un(*x, *y), "loop unionNodes.0 invariant step");
        __CPROVER_assume(0);
    }
    return 1;
}

/* ------------------------------------------------------------------ contracts on the real methods */
#define DS (ds == (void *)&g_ds)
#define RET __CPROVER_return_value
#define OLD(e) __CPROVER_old(e)

/* findNode: the result is in the argument's class and was a root at the instant of this thread's last load (S.snap);
   the state only EVOLVEs; this thread performs no merge.  Sequentially: the result IS the root, roots/ranks/classes unchanged. */
unsigned long h_findNode(void *ds, unsigned long x)
__CPROVER_requires(DS && INV(&S.s) && x < S.s.n && S.merges == 0)
__CPROVER_ensures(RET < S.s.n && S.merges == 0 && S.fresh == OLD(S.fresh))   /* INV(S.s) is part of EVOLVE(_, S.s) below */
__CPROVER_ensures(EVOLVEv(OLD(S.s), S.snap) && EVOLVE(&S.snap, &S.s))
__CPROVER_ensures(isroot(&S.snap, RET) && same(&S.snap, RET, x))
#ifdef VX_SEQ
__CPROVER_ensures(STILLv(OLD(S.s), S.s) && isroot(&S.s, RET))
#endif
__CPROVER_assigns(S);

/* updateRoot: true only if this thread's single CAS succeeded on node x being a root of rank oldrank at that instant */
_Bool h_updateRoot(void *ds, unsigned long x, unsigned char oldrank, unsigned long y, unsigned char newrank)
__CPROVER_requires(DS && INV(&S.s) && x < S.s.n && y < S.s.n && S.nsteps_chg == 0)
__CPROVER_requires(Q.req_on && Q.req_x < S.s.n && Q.req_y < S.s.n && ((same(&S.s, x, Q.req_x) && same(&S.s, y, Q.req_y)) || (same(&S.s, x, Q.req_y) && same(&S.s, y, Q.req_x))))
/* caller's obligation (what unionNodes must have established): y was observed as a root with rank newrank' and (oldrank,x) < (rank,y) */
__CPROVER_requires(x != y ? (oldrank < keyrank(&S.s, y) || (oldrank == keyrank(&S.s, y) && x < y)) : (newrank == oldrank + 1 && oldrank < 7 && (1u << (oldrank + 1u)) <= csize(&S.s, S.s.set[x])))
__CPROVER_ensures(INV(&S.s) && EVOLVEv(OLD(S.s), S.s))
__CPROVER_ensures(RET ==> (isroot(&S.snap, x) && rk(&S.snap, x) == oldrank))
__CPROVER_ensures((RET && x != y) ==> (par(&S.snap, x) == x && S.merges >= 1))
__CPROVER_ensures(!RET ==> S.nsteps_chg == 0)
__CPROVER_assigns(S);

/* unionNodes: on return x0 and y0 are in the same class (=> every requested union is in the final partition); every merge
   this thread performed joined the classes of its own arguments (G.merge, checked at each link step) */
void h_unionNodes(void *ds, unsigned long x, unsigned long y)
__CPROVER_requires(DS && INV(&S.s) && x < S.s.n && y < S.s.n && S.merges == 0 && Q.req_on && Q.req_x == x && Q.req_y == y && Q.x0 == x && Q.y0 == y)
__CPROVER_ensures(INV(&S.s) && EVOLVEv(OLD(S.s), S.s) && same(&S.s, x, y))
#ifdef VX_SEQ
/* sequential functional contract: classes afterwards = classes before with class(x) and class(y) merged, nothing else */
__CPROVER_ensures(MERGEDv(OLD(S.s), S.s, x, y))
#endif
__CPROVER_assigns(S, H);

/* sameSet: true  => x0,y0 are in one class at return (classes only merge: it stays true);
            false => at one of the instants of this thread's last three loads x0 and y0 were in different classes */
_Bool h_sameSet(void *ds, unsigned long x, unsigned long y)
__CPROVER_requires(DS && INV(&S.s) && x < S.s.n && y < S.s.n && S.merges == 0 && Q.x0 == x && Q.y0 == y)
__CPROVER_ensures(INV(&S.s) && EVOLVEv(OLD(S.s), S.s) && S.merges == 0)
__CPROVER_ensures(RET ==> same(&S.s, x, y))
__CPROVER_ensures(!RET ==> ((EVOLVEv(OLD(S.s), S.prev) && EVOLVE(&S.prev, &S.s) && !same(&S.prev, x, y)) ||
                            (EVOLVEv(OLD(S.s), S.snap) && EVOLVE(&S.snap, &S.s) && !same(&S.snap, x, y)) ||
                            (EVOLVEv(OLD(S.s), S.prev2) && EVOLVE(&S.prev2, &S.s) && !same(&S.prev2, x, y))))
#ifdef VX_SEQ
__CPROVER_ensures(RET == samev(OLD(S.s), x, y) && STILLv(OLD(S.s), S.s))
#endif
__CPROVER_assigns(S, H);

/* makeNode (sequential): appends node n as a self-rooted rank-0 singleton */
unsigned long h_makeNode(void *ds)
__CPROVER_requires(DS && INV(&S.s) && S.s.n < N && S.s.set[S.s.n] < N && csize(&S.s, S.s.set[S.s.n]) == 0 && S.fresh == N)
__CPROVER_ensures(S.s.n == OLD(S.s.n) + 1 && RET == ((OLD(S.s.n)) << 8))
__CPROVER_ensures(isroot(&S.s, OLD(S.s.n)) && rk(&S.s, OLD(S.s.n)) == 0 && INV(&S.s) && S.fresh == N)
__CPROVER_assigns(S);

unsigned long h_b2p(unsigned long b); unsigned char h_b2r(unsigned long b); unsigned long h_pr2b(unsigned long p, unsigned char r);

/* ------------------------------------------------------------------ harnesses */
#ifdef VX_CANARY
#define CANARY __CPROVER_assert(0, "canary: reachable after the call under contract")
#else
#define CANARY
#endif
static void init(void) {
    struct ghost h; S = h; struct request q; Q = q;
    S.nsteps_chg = 0; S.merges = 0; S.fresh = N;
}
/* the hooks' invariants speak about the state at FUNCTION entry, recorded here (robust against code moving around the loops) */
void harness_findNode(void) { init(); S.entry_fn = S.s; h_findNode(&g_ds, Q.x0); CANARY; }
void harness_updateRoot(void) { init(); h_updateRoot(&g_ds, Q.x0, nondet_uchar(), Q.y0, nondet_uchar()); CANARY; }
void harness_unionNodes(void) { init(); Q.req_on = 1; Q.req_x = Q.x0; Q.req_y = Q.y0; H.entry_un = S.s; h_unionNodes(&g_ds, Q.x0, Q.y0); CANARY; }
void harness_sameSet(void) { init(); H.entry_ss = S.s; h_sameSet(&g_ds, Q.x0, Q.y0); CANARY; }
void harness_makeNode(void) { init(); h_makeNode(&g_ds); CANARY; }

/* L1: bit packing */
void harness_pack(void) {
    unsigned long p = nondet_ulong(), b = nondet_ulong(); unsigned char r = nondet_uchar();
    __CPROVER_assume(p < (1ul << 56));
    __CPROVER_assert(h_b2p(h_pr2b(p, r)) == p, "L1: b2p(pr2b(p,r)) == p");
    __CPROVER_assert(h_b2r(h_pr2b(p, r)) == r, "L1: b2r(pr2b(p,r)) == r");
    __CPROVER_assert(h_pr2b(h_b2p(b), h_b2r(b)) == b, "L1: pr2b(b2p(b), b2r(b)) == b");
    __CPROVER_assert(h_b2p(b) == (b >> 8) && h_b2r(b) == (unsigned char)(b & 255ul), "L1: layout is parent << 8 | rank (used by the ghost functions)");
    CANARY;
}

/* ------------------------------------------------------------------ lemmas (pure C) */
void lemma_evolve_reflexive(void) {
    struct uf a; __CPROVER_assume(INV(&a));
    __CPROVER_assert(EVOLVE(&a, &a), "lemma: EVOLVE reflexive");
    CANARY;
}
void lemma_evolve_transitive(void) {
    struct uf a, b, c; __CPROVER_assume(INV(&a) && EVOLVE(&a, &b) && EVOLVE(&b, &c));
    __CPROVER_assert(EVOLVE(&a, &c), "lemma: EVOLVE transitive");
    CANARY;
}
/* every step the monitor allows (any thread) is within what every thread relies on, and keeps INV — given the step's own
   proof obligations (rank bump justified by class size; merged classes are distinct) which the monitor asserts through INV */
void lemma_guarantee_within_rely(void) {
    struct uf a; __CPROVER_assume(INV(&a));
    unsigned long i = nondet_ulong(), nw = nondet_ulong(); __CPROVER_assume(i < a.n);
    struct uf t = a; _Bool linked; unsigned long lt;
    int code = mon_step(&t, i, a.blk[i], nw, &linked, &lt);
    __CPROVER_assume(code == 0 && INV(&t));
    __CPROVER_assert(EVOLVE(&a, &t), "lemma: an allowed INV-preserving step is within EVOLVE");
    CANARY;
}
/* INV excludes cycles: following parent links from any node reaches a root within n steps */
void lemma_inv_acyclic(void) {
    struct uf a; __CPROVER_assume(INV(&a));
    unsigned long i = nondet_ulong(); __CPROVER_assume(i < a.n);
    unsigned long c = i;
    for (unsigned long k = 0; k < N; k++) if (!isroot(&a, c)) c = par(&a, c);
    __CPROVER_assert(isroot(&a, c), "lemma: INV => every parent chain ends in a root within n steps (no cycle)");
    __CPROVER_assert(a.set[c] == a.set[i], "lemma: ... and that root is in the node's class");
    CANARY;
}
