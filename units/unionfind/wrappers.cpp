#include "vx_uf.h"
#include "extracted.hpp"
using namespace souffle;
extern "C" {
unsigned long h_findNode(void* ds, unsigned long x) { return ((DisjointSet*)ds)->findNode(x); }
bool h_updateRoot(void* ds, unsigned long x, unsigned char oldrank, unsigned long y, unsigned char newrank) {
    return ((DisjointSet*)ds)->updateRoot(x, oldrank, y, newrank);
}
void h_unionNodes(void* ds, unsigned long x, unsigned long y) { ((DisjointSet*)ds)->unionNodes(x, y); }
bool h_sameSet(void* ds, unsigned long x, unsigned long y) { return ((DisjointSet*)ds)->sameSet(x, y); }
unsigned long h_makeNode(void* ds) { return ((DisjointSet*)ds)->makeNode(); }
unsigned long h_b2p(unsigned long b) { return DisjointSet::b2p(b); }
unsigned char h_b2r(unsigned long b) { return DisjointSet::b2r(b); }
unsigned long h_pr2b(unsigned long p, unsigned char r) { return DisjointSet::pr2b(p, r); }
}
