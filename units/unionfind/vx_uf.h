#ifndef VX_UF_H
#define VX_UF_H
#include <atomic>
#include <cstddef>
#include <cstdint>
#include <utility>
extern "C" {
void* vx_uf_cell(unsigned long i);
unsigned long vx_uf_size(void);
unsigned long vx_uf_create(void);
void vx_enter_findNode_0(void); bool vx_head_findNode_0(unsigned long* x);
void vx_enter_sameSet_0(void); bool vx_head_sameSet_0(unsigned long* x, unsigned long* y);
void vx_enter_unionNodes_0(void); bool vx_head_unionNodes_0(unsigned long* x, unsigned long* y);
unsigned long h_findNode(void* ds, unsigned long x);
}
namespace souffle {
// scaffold for PiggyList<std::atomic<block_t>> (TRUSTED): cell i of the ghost-visible node array
template <class T>
struct PiggyList {
    T& get(std::size_t i) const { return *(T*)vx_uf_cell(i); }
    std::size_t size() const { return vx_uf_size(); }
    std::size_t createNode() { return vx_uf_create(); }
    void clear() {}
};
}
#endif
