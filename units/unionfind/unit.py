"""C29 (and the closure part of C28): the real lock-free DisjointSet of UnionFind.h.

The member `PiggyList<std::atomic<block_t>> a_blocks` is bound to a scaffold PiggyList whose get(i) asserts i < n and returns
a reference into the ghost-visible node array S.blk[N] (the real PiggyList addressing/growth is proved in the piggylist unit).
Node count is bounded by N; iterations, threads and schedules are not (rely/guarantee + loop-invariant hooks)."""
import os
import re
from vxlib.extract import Source, strip_comments, ExtractError, blank
from vxlib import rewrite as rw
from vxlib.cbmc import Harness

HERE = os.path.dirname(os.path.abspath(__file__))
UF = 'src/include/souffle/datastructure/UnionFind.h'

NATIVE_PRELUDE = '''#include <atomic>
#include <cstddef>
#include <cstdint>
#include <utility>
namespace souffle {
template <class T> struct PiggyList { T& get(std::size_t) const; std::size_t size() const; std::size_t createNode(); void clear(); };
template <typename TupleType> class EquivalenceRelation;
}
'''


def extract(ctx):
    src = Source(os.path.join(ctx.repo, UF))
    log = {}
    types, _ = src.between(r'using\s+rank_t\s*=', r'class\s+DisjointSet\s*\{')
    cls, _ = src.block(r'class\s+DisjointSet\s*\{')
    raw = 'namespace souffle {\n' + strip_comments(types) + strip_comments(cls) + '\n}\n'
    ctx.write('raw.hpp', raw)
    ctx.write('native.cpp', NATIVE_PRELUDE + '#include "raw.hpp"\n')
    docs = rw.clang_ast('native.cpp', 'DisjointSet', ctx.work)
    text, n_auto = rw.r2_auto(raw, 'raw.hpp', docs, log, extra_types=('std::atomic<unsigned long>',))
    if n_auto == 0:
        raise ExtractError('R2 must fire in DisjointSet')
    hooks = [dict(func=r'parent_t\s+findNode\s*\(\s*parent_t\s+x\s*\)\s*\{', name='findNode', k=0, args='&x', vars=['x']),
             dict(func=r'bool\s+sameSet\s*\(\s*parent_t\s+x\s*,\s*parent_t\s+y\s*\)\s*\{', name='sameSet', k=0, args='&x, &y', vars=['x', 'y']),
             dict(func=r'void\s+unionNodes\s*\(\s*parent_t\s+x\s*,\s*parent_t\s+y\s*\)\s*\{', name='unionNodes', k=0, args='&x, &y', vars=['x', 'y'])]
    for h in hooks:
        # hook arguments follow the clang-computed modified set in declaration order (a renamed local does not break the hook)
        h['args'], order = rw.hook_args_by_order(docs, raw, h['name'], h['k'], ['&'] * len(h['vars']))
        log['loop %s.%d modified set (clang, declaration order)' % (h['name'], h['k'])] = order
    text = rw.r9_hooks(text, hooks, log)
    # modular verification: inside sameSet/unionNodes the calls of findNode go through the extern "C" entry that carries findNode's contract
    def redirect(t, fn_regex):
        b = blank(t)
        m = re.search(fn_regex, b)
        from vxlib.extract import match_brace
        ob = m.end() - 1
        cb = match_brace(b, ob)
        body, n = re.subn(r'(?<![\w.>])findNode\(', 'h_findNode(this, ', t[ob:cb])
        return t[:ob] + body + t[cb:], n
    text, n1 = redirect(text, r'bool\s+sameSet\s*\([^)]*\)\s*\{')
    text, n2 = redirect(text, r'void\s+unionNodes\s*\([^)]*\)\s*\{')
    log['R8 findNode(x) inside sameSet/unionNodes -> h_findNode(this, x) (callee checked against its own contract)'] = n1 + n2
    if n1 < 1 or n2 < 1:
        raise ExtractError('sameSet / unionNodes no longer call findNode')
    # R18: namespace-scope constexpr constants whose initialiser mentions earlier literal constants are folded textually
    # (CBMC initialises C++ constants in alphabetical order)
    lits = dict(re.findall(r'constexpr\s+\w+\s+(\w+)\s*=\s*(\d+[uUlL]*)\s*;', text))
    def fold(m):
        init = m.group(3)
        for k_, v_ in lits.items():
            init = re.sub(r'\b%s\b' % k_, v_, init)
        return 'constexpr %s %s = %s;' % (m.group(1), m.group(2), init)
    text, nfold = re.subn(r'constexpr\s+(\w+)\s+(\w+)\s*=\s*([^;]*[A-Za-z_][^;]*);', fold, text)
    log['R18 constexpr initialisers folded over literal constants'] = nfold
    text = rw.r1_using(text, log)
    text = rw.r3_default(text, log)
    text, nf = re.subn(r'template\s*<\s*typename\s+TupleType\s*>\s*friend\s+class\s+EquivalenceRelation\s*;', '', text)
    log['R5 friend template deleted'] = nf
    text = rw.r5_noise(text, log)
    text = rw.r11_access(text, log)
    text = re.sub(r'\binline\s+', '', text)
    ctx.write('extracted.hpp', text)
    ctx.rewrites.update(log)
    ctx.fact('UnionFind.h: split_size is 8 and rank_mask = (1ul << split_size) - 1',
             src.has(r'constexpr\s+uint8_t\s+split_size\s*=\s*8u;') and src.has(r'constexpr\s+block_t\s+rank_mask\s*=\s*\(1ul\s*<<\s*split_size\)\s*-\s*1;'))
    ctx.dropped += ['SparseDisjointSet (sparse<->dense maps: LambdaBTreeSet, std::function, lambdas) and EqrelMapComparator',
                    'DisjointSet::clear(); the PiggyList member is a scaffold over the ghost-visible node array (real PiggyList: piggylist unit)']


def gen_preds(N):
    """csize/INV/EVOLVE/STILL as loop-free, assignment-free C expressions unrolled for N nodes"""
    R = range(N)
    L = ['/* GENERATED by units/unionfind/unit.py for N = %d */' % N]
    L.append('static unsigned csize(const struct uf *s, unsigned char label) { return %s; }' %
             ' + '.join('((%d < s->n && s->set[%d] == label) ? 1u : 0u)' % (k, k) for k in R))
    def inv_i(i):
        uniq = ' && '.join('!(%d < s->n && isroot(s, %d) && s->set[%d] == s->set[%d])' % (j, j, j, i) for j in R if j != i) or '1'
        return ('(!(%d < s->n) || (par(s, %d) < s->n && s->set[%d] < N && (isroot(s, %d) ? (rk(s, %d) < 8 && (1u << (rk(s, %d) & 7u)) <= csize(s, s->set[%d]) && %s) '
                ': (keylt(s, %d, par(s, %d)) && s->set[%d] == s->set[par(s, %d)]))))' % (i, i, i, i, i, i, i, uniq, i, i, i, i))
    L.append('static _Bool INV(const struct uf *s) { return s->n <= N && %s; }' % ' && '.join(inv_i(i) for i in R))
    def ev_i(i):
        sets = ' && '.join('(!(%d < a->n) || a->set[%d] != a->set[%d] || b->set[%d] == b->set[%d])' % (j, i, j, i, j) for j in R if j != i) or '1'
        return ('(!(%d < a->n) || ((isroot(a, %d) || (!isroot(b, %d) && b->frank[%d] == a->frank[%d])) && keyrank(b, %d) >= keyrank(a, %d) && %s))' % (i, i, i, i, i, i, i, sets))
    L.append('static _Bool EVOLVE(const struct uf *a, const struct uf *b) { return INV(b) && b->n == a->n && %s; }' % ' && '.join(ev_i(i) for i in R))
    L.append('static _Bool STILL(const struct uf *a, const struct uf *b) { return b->n == a->n && %s; }' % ' && '.join(
        '(!(%d < a->n) || (isroot(a, %d) == isroot(b, %d) && (!isroot(a, %d) || rk(a, %d) == rk(b, %d)) && a->set[%d] == b->set[%d]))' % (i, i, i, i, i, i, i, i) for i in R))
    return '\n'.join(L) + '\n'


def harnesses(ctx):
    cpp = os.path.join(HERE, 'wrappers.cpp')
    c = [os.path.join(HERE, 'contracts.c')]
    for n in (3, 4, 5):
        ctx.write('uf_gen_%d.h' % n, gen_preds(n))
    hs = harnesses_n(ctx, cpp, c, 4, '')
    if ctx.prop == 'C28' and ctx.tier == 'quick':
        keep = ('uf.pack', 'uf.unionNodes', 'uf.unionNodes.seq', 'uf.sameSet.seq', 'uf.makeNode')
        hs = [h for h in hs if h.name in keep or h.name.startswith('uf.lemma')]
    if ctx.tier == 'thorough':
        # forests of 5 nodes for the functions whose obligations finish within the hour (unionNodes at N=5 exceeds 3600 s on every back end)
        only = ('uf.findNode', 'uf.findNode.seq', 'uf.updateRoot', 'uf.updateRoot.seq', 'uf.sameSet', 'uf.sameSet.seq', 'uf.makeNode')
        for h in harnesses_n(ctx, cpp, c, 5, '.n5'):
            base = h.name[:-3]
            if base in only or base.startswith('uf.lemma'):
                h.timeout = 3400
                hs.append(h)
    return hs


def harnesses_n(ctx, cpp, c, N, sfx):
    D = 'souffle::DisjointSet::'
    bnd = {'nodes': N, 'note': 'forests of at most %d nodes; iterations, thread count and schedule unbounded' % N}
    ob = 10 if N >= 5 else None
    hs = []
    if N == 4:
        hs.append(Harness('uf.pack', 'harness_pack', cpp=cpp, c=c, defines=['VX_N=%d' % N], unwind=None, must_have=['L1'],
                          clause='L1: b2p/b2r/pr2b are mutually inverse on 56-bit parents and 8-bit ranks', funcs=[D + 'b2p', D + 'b2r', D + 'pr2b']))
    for mode, tag in (('', ''), ('VX_SEQ', '.seq')):
        defs = ['VX_N=%d' % N] + ([mode] if mode else [])
        what = 'under interference (rely/guarantee)' if not mode else 'sequential functional contract (silent environment)'
        hs.append(Harness('uf.findNode' + tag + sfx, 'harness_findNode', cpp=cpp, c=c, defines=defs, enforce='h_findNode', unwind=N + 2, bounded=bnd, object_bits=ob,
                          must_have=['postcondition', 'findNode.0 invariant base', 'findNode.0 invariant step', 'G\\.'],
                          clause='findNode %s: returns a node of the same class that was a root at some instant; every own step is a path-halving step keeping INV (no cycles)' % what,
                          funcs=[D + 'findNode', D + 'get']))
        hs.append(Harness('uf.updateRoot' + tag + sfx, 'harness_updateRoot', cpp=cpp, c=c, defines=defs, enforce='h_updateRoot', unwind=max(N + 2, 12), bounded=bnd, object_bits=ob,
                          must_have=['postcondition'], clause='updateRoot %s: succeeds only by one CAS on a node that is a root with the expected rank' % what, funcs=[D + 'updateRoot']))
        hs.append(Harness('uf.unionNodes' + tag + sfx, 'harness_unionNodes', cpp=cpp, c=c, defines=defs, enforce='h_unionNodes', replace=['h_findNode'], unwind=max(N + 2, 12), bounded=bnd, object_bits=ob,
                          must_have=['postcondition', 'unionNodes.0 invariant base', 'unionNodes.0 invariant step', 'G\\.'],
                          clause='unionNodes %s: on return x0 and y0 are in the same class; every merge it performs joins the classes of its own arguments; ranks/links keep INV' % what,
                          funcs=[D + 'unionNodes']))
        hs.append(Harness('uf.sameSet' + tag + sfx, 'harness_sameSet', cpp=cpp, c=c, defines=defs, enforce='h_sameSet', replace=['h_findNode'], unwind=max(N + 2, 12), bounded=bnd, object_bits=ob,
                          must_have=['postcondition', 'sameSet.0 invariant base', 'sameSet.0 invariant step'],
                          clause='sameSet %s: the answer is correct at some instant during the call' % what, funcs=[D + 'sameSet']))
    hs.append(Harness('uf.makeNode' + sfx, 'harness_makeNode', cpp=cpp, c=c, defines=['VX_N=%d' % N, 'VX_SEQ'], enforce='h_makeNode', unwind=max(N + 2, 12), bounded=bnd,
                      must_have=['postcondition'], clause='makeNode: appends a self-rooted rank-0 node in its own class', funcs=[D + 'makeNode']))
    for lem in ('evolve_reflexive', 'evolve_transitive', 'guarantee_within_rely', 'inv_acyclic'):
        hs.append(Harness('uf.lemma.' + lem + sfx, 'lemma_' + lem, c=c, defines=['VX_N=%d' % N], unwind=N + 2, bounded=bnd, must_have=['lemma'],
                          clause='rely/guarantee side condition / consequence of INV'))
    return hs


def replay(ctx, h, r, ins, tr):
    """Interleaving counterexamples are replayed by a bounded systematic exploration of two-thread histories on the real
    method bodies (this run's extracted text compiled natively against the yield-instrumented atomic stub)."""
    import subprocess
    from vxlib.cbmc import STUBS
    exe = os.path.join(ctx.work, 'replay_uf_explore')
    import shutil
    nat = os.path.join(ctx.work, 'natstub')        # only the instrumented <atomic>; every other header is the real libstdc++
    os.makedirs(nat, exist_ok=True)
    for f in ('atomic', 'vx_rt.h'):
        shutil.copy(os.path.join(STUBS, f), os.path.join(nat, f))
    p = subprocess.run(['g++', '-std=c++17', '-O1', '-I', nat, '-I', ctx.work, '-I', HERE, os.path.join(HERE, '..', '..', 'replay', 'unionfind', 'explore.cpp'), '-o', exe],
                       stdout=subprocess.PIPE, stderr=subprocess.STDOUT)
    if p.returncode != 0:
        return None, 'native replay build failed: ' + p.stdout.decode()[-500:]
    try:
        q = subprocess.run([exe], stdout=subprocess.PIPE, stderr=subprocess.STDOUT, timeout=600)
    except subprocess.TimeoutExpired:
        return None, 'native exploration timed out'
    out = q.stdout.decode().strip()
    return q.returncode == 1, 'exploration of two-thread histories on the real DisjointSet bodies: ' + out[-600:]


ASSUMPTIONS = [
    'sequential consistency (memory orders ignored)',
    'forests of at most N nodes (N=4; thorough adds N=5 for findNode/updateRoot/sameSet/makeNode and the lemmas) — the only bound; fewer than 2^56 nodes',
    'PiggyList::get(i) addresses cell i of a fixed node array (proved separately in the piggylist unit for the real PiggyList)',
    'thread composition by the rely/guarantee rule; progress (lock-freedom) is not claimed',
    'no concurrent makeNode while find/union/sameSet run on existing nodes (node count fixed during those calls); makeNode itself is proved sequentially',
]
TRUSTED = ['stubs/atomic', 'units/unionfind/vx_uf.h (scaffold PiggyList over the ghost-visible node array)', 'rewrite rules R1,R2,R3,R5,R8,R9,R11']

MUTANTS = [
    dict(name='unionNodes: ranks read without re-checking root-ness (the repaired defect)', file=UF, find=r'if \(b2p\(xState\) != x \|\| b2p\(yState\) != y\) continue;', repl='', expect=r'uf\.unionNodes :: .*G\.link', props=['C29']),
    dict(name='updateRoot: expected rank not compared', file=UF, find=r'if \(nextN != x \|\| rankN != oldrank\) return false;', repl='if (nextN != x) return false;', expect=r'uf\.(updateRoot|unionNodes)', props=['C29']),
    dict(name='findNode: re-points x to itself', file=UF, find=r'parent_t newParent = b2p\(get\(b2p\(xState\)\)\);', repl='parent_t newParent = x;', expect=r'uf\.findNode', props=['C29']),
    dict(name='sameSet: false without checking that x is still a root', file=UF, find=r'if \(b2p\(get\(x\)\) == x\) return false;', repl='return false;', expect=r'uf\.sameSet', props=['C29']),
    dict(name='unionNodes: link direction ignores the ranks', file=UF, find=r'if \(xrank > yrank \|\| \(\(xrank == yrank\) && x > y\)\) \{', repl='if (x > y) {', expect=r'uf\.unionNodes', props=['C29']),
    dict(name='makeNode: new node starts with rank 1', file=UF, find=r'a_blocks\.get\(nodeDetails\)\.store\(pr2b\(nodeDetails, 0\)\);', repl='a_blocks.get(nodeDetails).store(pr2b(nodeDetails, 1));', expect=r'uf\.makeNode', props=['C29']),
    dict(name='pr2b: rank field overlaps the parent', file=UF, find=r'return \(\(\(block_t\)parent\) << split_size\) \| rank;', repl='return (((block_t)parent) << (split_size - 1)) | rank;', expect=r'uf\.pack', props=['C29']),
]
