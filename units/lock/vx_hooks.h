#ifndef VX_HOOKS_H
#define VX_HOOKS_H
extern "C" {
void vx_enter_start_read_0(void);
bool vx_head_start_read_0(int* v, int* wait_i);
void vx_enter_start_write_0(void);
bool vx_head_start_write_0(int* v, int* wait_i);
}
#endif
