"""C30 unit: the real OptimisticReadWriteLock + detail::Waiter from ParallelUtil.h."""
import os
import re
from vxlib.extract import Source, strip_comments, ExtractError
from vxlib import rewrite as rw
from vxlib.cbmc import Harness

HERE = os.path.dirname(os.path.abspath(__file__))
FILE = 'src/include/souffle/utility/ParallelUtil.h'

NATIVE_PRELUDE = '''#include <atomic>
#include <cstddef>
#include <sched.h>
#define pthread_yield sched_yield
#define cpu_relax() asm volatile("pause\\n" : : : "memory")
'''

WAITER_OVF = (r'operator\(\)\.overflow\.\d+ arithmetic overflow on signed \+ in this->i \+ 1', 'signed overflow of the plain-int spin counter detail::Waiter::i after 2^31 spins of ONE wait '
              '(the hook makes i arbitrary); outside every listed property; assumption: fewer than 2^31 spins per wait')


def local_types(docs, func_name):
    """name -> declared type of the parameters and locals of func_name (first definition found)"""
    out = {}
    found = []

    def find_fn(n, parents):
        if n.get('kind') in ('CXXMethodDecl', 'FunctionDecl') and n.get('name') == func_name and any(c.get('kind') == 'CompoundStmt' for c in n.get('inner', []) or []):
            found.append(n)
    for d in docs:
        rw.walk(d, find_fn)
    if found:
        def v(n, parents):
            if n.get('kind') in ('ParmVarDecl', 'VarDecl') and n.get('name'):
                out.setdefault(n['name'], n.get('type', {}).get('desugaredQualType', n.get('type', {}).get('qualType', '')))
        rw.walk(found[0], v)
    return out


def extract(ctx):
    src = Source(os.path.join(ctx.repo, FILE))
    log = {}
    waiter, _ = src.block(r'\bclass\s+Waiter\s*\{')
    lock, _ = src.block(r'\bclass\s+OptimisticReadWriteLock\s*\{')   # first = IS_PARALLEL definition
    ctx.fact('ParallelUtil.h: the extracted OptimisticReadWriteLock is the parallel definition (has the atomic version word)',
             'std::atomic<int> version' in lock)
    raw = 'namespace souffle {\nnamespace detail {\n' + strip_comments(waiter) + '\n}\n' + strip_comments(lock) + '\n}\n'
    ctx.write('raw.hpp', raw)
    ctx.write('native.cpp', NATIVE_PRELUDE + '#include "raw.hpp"\n')
    docs = rw.clang_ast('native.cpp', 'souffle', ctx.work)
    text, n_auto = rw.r2_auto(raw, 'raw.hpp', docs, log)
    if n_auto == 0:
        raise ExtractError('R2 must fire in the lock unit')
    # loop-modified sets from clang, compared with the hook argument lists below
    hooks = [
        dict(func=r'\bstart_read\s*\(\s*\)\s*\{', name='start_read', k=0, args='&v, (int*)&wait', vars=['v', 'wait']),
        dict(func=r'\bstart_write\s*\(\s*\)\s*\{', name='start_write', k=0, args='&v, (int*)&wait', vars=['v', 'wait']),
    ]
    for h in hooks:
        mod = rw.loop_modified(docs, raw, h['name'], h['k'])
        # the hook havocs (a) the local that keeps the observed version, if the loop has one (null pointer otherwise), and (b) the Waiter.
        # Both are identified by their declared TYPE, not by name: renaming a local must not break the hook.
        types = local_types(docs, h['name'])
        waiters = [x for x in mod if 'Waiter' in types.get(x, '')]
        ints = [x for x in mod if x not in waiters and re.match(r'^(int|unsigned|unsigned int|long|unsigned long|std::size_t|size_t)$', types.get(x, '').replace('const ', '').strip())]
        missing = [x for x in mod if x not in waiters and x not in ints]
        log['loop %s.%d modified set (clang)' % (h['name'], h['k'])] = ['%s: %s' % (x, types.get(x, '?')) for x in mod]
        if missing or len(waiters) != 1 or len(ints) > 1:
            raise ExtractError('loop %s.%d modifies %s: the hook can havoc one integer local and one Waiter' % (h['name'], h['k'], ['%s: %s' % (x, types.get(x, '?')) for x in mod]))
        h['args'] = '%s, (int*)&%s' % (('&' + ints[0]) if ints else '(int*)0', waiters[0])
    text = rw.r9_hooks(text, hooks, log)
    text = rw.r3_default(text, log)
    text = rw.r4b_nsdmi(text, 'Waiter', log)
    text = rw.r4b_nsdmi(text, 'OptimisticReadWriteLock', log)
    text = rw.r5_noise(text, log)
    text = rw.r11_access(text, log)
    ctx.write('extracted.hpp', text)
    ctx.rewrites.update(log)
    ctx.dropped.append('nothing of class OptimisticReadWriteLock / detail::Waiter; cpu_relax() and pthread_yield() are defined away (no shared state)')
    return text


def harnesses(ctx):
    cpp = os.path.join(HERE, 'wrappers.cpp')
    c = [os.path.join(HERE, 'contracts.c')]
    M = 'souffle::OptimisticReadWriteLock::'
    G = ['G\\.acquire', 'G\\.commit', 'G\\.abort', 'G\\.shape', 'INV after own step']
    hs = []

    def H(fn, clause, must=(), **kw):
        hs.append(Harness('lock.' + fn, 'harness_' + fn, cpp=cpp, c=c, enforce='h_' + fn, clause=clause,
                          must_have=['postcondition'] + list(must), funcs=[M + fn], exclude=[WAITER_OVF], **kw))
    H('start_read', 'clause 2 (lease issue): even version read with no writer', G + ['start_read.0 invariant base', 'start_read.0 invariant step'])
    H('validate', 'clause 2: validation succeeds iff no writer active and no commit since the lease', G)
    H('end_read', 'clause 2 (end_read = validate)', G)
    H('start_write', 'clause 1: at most one writer', G + ['start_write.0 invariant base', 'start_write.0 invariant step'])
    H('try_start_write', 'clause 1: at most one writer (try)', G)
    H('try_upgrade_to_write', 'clauses 1-3: upgrade only on an unchanged lease; failed upgrade leaves no trace', G)
    H('abort_write', 'clause 3: abort restores the displaced version', G)
    H('end_write', 'write commit', G)
    H('is_write_locked', 'observer', G)
    hs.append(Harness('lock.construct', 'harness_construct', cpp=cpp, c=c, clause='initial state satisfies INV',
                      must_have=['construct'], funcs=[M + 'OptimisticReadWriteLock()']))
    # clause 4: no livelock without a concurrent writer — hooks off, environment silent, loops must run 0 times
    for fn in ('start_read', 'start_write'):
        hs.append(Harness('lock.%s.nolivelock' % fn, 'harness_' + fn, cpp=cpp, c=c, enforce='h_' + fn,
                          defines=['VX_NOHOOK', 'VX_QUIET'], unwind=1, clause='clause 4: no livelock without a concurrent writer '
                          '(spin loop exits after 0 iterations; unwinding assertion is the obligation)',
                          must_have=['unwind'], funcs=[M + fn], unwind_is_obligation=True, exclude=[WAITER_OVF]))
    for lem in ('rely_reflexive', 'rely_transitive', 'guarantee_within_rely', 'writer_stable', 'version_identifies_commit'):
        hs.append(Harness('lock.lemma.' + lem, 'lemma_' + lem, c=c, clause='rely/guarantee side condition', unwind=None,
                          must_have=['lemma']))
    return hs


ASSUMPTIONS = [
    'sequential consistency: memory_order arguments are ignored by the stub std::atomic (acquire/release annotations unverified)',
    'fewer than 2^31 write commits while one read lease is outstanding (version is a 32-bit counter)',
    'fewer than 2^31 spins in one wait (detail::Waiter::i is a plain int)',
    'thread composition by the rely/guarantee rule (Jones): per-thread proofs + lemmas R reflexive/transitive, G within R',
    'clause 4 is proved as: with no other thread writing, start_read/start_write spin zero times; fairness-based liveness under contention is not claimed',
]
TRUSTED = ['stubs/atomic (one indivisible step per operation, SC)', 'stubs/vx_rt.h', 'CBMC 6.11 C++ front end on the extracted text',
           'rewrite rules R2,R3,R4b,R5,R9,R11 (vxlib/rewrite.py)']

F = FILE
MUTANTS = [
    dict(name='try_start_write fetch_or->fetch_add', file=F, find=r'(bool try_start_write\(\) \{\s*auto v = version\.)fetch_or', repl=r'\1fetch_add', expect=r'G\.commit|G\.shape'),
    dict(name='start_write fetch_or->fetch_add', file=F, find=r'(// set last bit => make it odd\s*auto v = version\.)fetch_or', repl=r'\1fetch_add', expect=r'G\.commit|G\.shape'),
    dict(name='abort_write fetch_sub->fetch_add', file=F, find=r'(void abort_write\(\) \{.*?version\.)fetch_sub', repl=r'\1fetch_add', expect=r'lock\.(abort_write|try_upgrade_to_write) :: .*postcondition'),
    dict(name='validate == -> <=', file=F, find=r'return lease\.version == version\.load', repl=r'return lease.version <= version.load', expect=r'lock\.validate :: .*postcondition'),
    dict(name='start_read without parity loop', file=F, find=r'while \(\(v & 0x1\) == 1\) \{(\s*// wait for a moment\s*wait\(\);\s*// get an updated version\s*v = version\.load)', repl=r'while ((v & 0x1) == 3) {\1', expect=r'lock\.start_read :: .*postcondition'),
    dict(name='try_upgrade returns true on mismatch', file=F, find=r'if \(lease\.version == v\) return true;', repl=r'if (lease.version <= v) return true;', expect=r'lock\.try_upgrade_to_write :: .*postcondition'),
    dict(name='try_upgrade forgets abort', file=F, find=r'(// if there was, undo write update\s*)abort_write\(\);', repl=r'\1', expect=r'lock\.try_upgrade_to_write :: .*postcondition'),
    dict(name='end_write adds 2', file=F, find=r'(void end_write\(\) \{.*?version\.fetch_add\()1', repl=r'\g<1>2', expect=r'G\.shape'),
    dict(name='end_write non-atomic load+store', file=F, find=r'version\.fetch_add\(1, std::memory_order_release\);', repl=r'version.store(version.load() + 1);', expect=r'lock\.end_write :: .*(postcondition|G\.)'),
    dict(name='start_write spins forever without writer', file=F, find=r'(// check for concurrent writes\s*while \(\(v & 0x1\) == )1', repl=r'\g<1>0', expect=r'lock\.start_write'),
    dict(name='is_write_locked inverted', file=F, find=r'return version & 0x1;', repl=r'return !(version & 0x1);', expect=r'lock\.is_write_locked :: .*postcondition'),
    dict(name='initial version odd', file=F, find=r'std::atomic<int> version\{0\};', repl=r'std::atomic<int> version{1};', expect=r'lock\.construct'),
]


def replay(ctx, h, r, ins, tr):
    """Interleaving counterexamples are replayed by a bounded systematic exploration of two-client histories on the real
    method bodies (this run's extracted text compiled natively against the yield-instrumented atomic stub)."""
    import shutil
    import subprocess
    from vxlib.cbmc import STUBS
    nat = os.path.join(ctx.work, 'natstub')
    os.makedirs(nat, exist_ok=True)
    for f in ('atomic', 'vx_rt.h'):
        shutil.copy(os.path.join(STUBS, f), os.path.join(nat, f))
    exe = os.path.join(ctx.work, 'replay_lock_explore')
    p = subprocess.run(['g++', '-std=c++17', '-O1', '-I', nat, '-I', ctx.work, os.path.join(HERE, '..', '..', 'replay', 'lock', 'explore.cpp'), '-o', exe],
                       stdout=subprocess.PIPE, stderr=subprocess.STDOUT)
    if p.returncode != 0:
        return None, 'native replay build failed: ' + p.stdout.decode()[-500:]
    try:
        q = subprocess.run([exe], stdout=subprocess.PIPE, stderr=subprocess.STDOUT, timeout=300)
    except subprocess.TimeoutExpired:
        return None, 'native exploration timed out'
    return q.returncode == 1, 'exploration of two-client histories on the real OptimisticReadWriteLock bodies: ' + q.stdout.decode().strip()[-500:]
