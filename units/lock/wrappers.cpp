// extern "C" entry points for the REAL OptimisticReadWriteLock (extracted each run into extracted.hpp)
#include <atomic>
#include <cstddef>
#include "vx_hooks.h"
#define pthread_yield() ((void)0)
#define cpu_relax() ((void)0)
#include "extracted.hpp"

using namespace souffle;
extern "C" {
int h_start_read(void* l) {
    OptimisticReadWriteLock::Lease lease = ((OptimisticReadWriteLock*)l)->start_read();
    return lease.version;
}
bool h_validate(void* l, int lease_version) {
    OptimisticReadWriteLock::Lease lease(lease_version);
    return ((OptimisticReadWriteLock*)l)->validate(lease);
}
bool h_end_read(void* l, int lease_version) {
    OptimisticReadWriteLock::Lease lease(lease_version);
    return ((OptimisticReadWriteLock*)l)->end_read(lease);
}
void h_start_write(void* l) {
    ((OptimisticReadWriteLock*)l)->start_write();
}
bool h_try_start_write(void* l) {
    return ((OptimisticReadWriteLock*)l)->try_start_write();
}
bool h_try_upgrade_to_write(void* l, int lease_version) {
    OptimisticReadWriteLock::Lease lease(lease_version);
    return ((OptimisticReadWriteLock*)l)->try_upgrade_to_write(lease);
}
void h_abort_write(void* l) {
    ((OptimisticReadWriteLock*)l)->abort_write();
}
void h_end_write(void* l) {
    ((OptimisticReadWriteLock*)l)->end_write();
}
bool h_is_write_locked(void* l) {
    return ((const OptimisticReadWriteLock*)l)->is_write_locked();
}
// default construction (the lock starts at an even version)
int h_construct_version(void) {
    OptimisticReadWriteLock l;
    return l.version.v;
}
}
