/* C30 — contracts, ghost state, rely/guarantee and loop hooks for the REAL souffle::OptimisticReadWriteLock.
 *
 * The lock object is the single int `S.ver` (class OptimisticReadWriteLock { std::atomic<int> version; }):
 * the wrappers receive &S.ver as the object pointer.  Every access the real methods make to it goes through
 * the stub std::atomic, i.e. through vx_yield() (environment) and vx_step() (ghost monitor) below.
 *
 * Thread identities: this thread is SELF; every other thread is some id not in {0, SELF}.
 */
#include <stdint.h>
#include <limits.h>

#define SELF 1

struct state {
    int ver;                 /* the real lock word */
    int writer;              /* ghost: id of the thread in a write phase, 0 if none */
    unsigned long commits;   /* ghost: number of committed write phases (mathematical; < 2^63) */
};

struct ghost {
    struct state s;
    /* snapshot immediately before / after this thread's most recent atomic step */
    struct state at, post;
    unsigned nsteps;         /* atomic steps by this thread in the current call, saturating at 3 */
    unsigned net;            /* sum of (new-old) over this thread's steps in the current call (mod 2^32) */
    int acq_ver;             /* version this thread displaced when it acquired (valid while writer==SELF) */
    /* lease bookkeeping for the current call */
    _Bool have_lease;
    unsigned long c0;        /* commit count at the instant the lease was issued */
    /* loop hook flags */
    _Bool first_sr, first_sw;
    /* mode */
    _Bool env_quiet;         /* clause 4: no other thread performs a write step */
} S;

int nondet_int(void);
unsigned long nondet_ulong(void);
_Bool nondet_bool(void);
_Bool vx_nondet_bool(void) { return nondet_bool(); }

/* ---------------------------------------------------------------- invariant, rely, guarantee */

/* INV: version = 2*commits + (a writer is active)   (mod 2^32) */
static _Bool INV(struct state s) {
    return (unsigned)s.ver == (unsigned)(2u * (unsigned)s.commits + (s.writer != 0 ? 1u : 0u));
}

/* thread-local part, about this thread's own ghost */
static _Bool INV_self(void) {
    return S.s.writer != SELF ||
           ((unsigned)S.s.ver == (unsigned)S.acq_ver + 1u && (S.acq_ver & 1) == 0);
}

/* R(self, s, s2): what any number of steps of threads other than `self` may do */
static _Bool rely(int self, struct state s, struct state s2) {
    if (!INV(s2)) return 0;
    if (s.writer == self) return s2.ver == s.ver && s2.writer == s.writer && s2.commits == s.commits;
    if (s2.writer == self) return 0;           /* nobody else makes me the writer */
    if (s2.commits < s.commits) return 0;      /* commits only grow */
    /* between two instants with the same commit count and no writer at either, the version is the same:
       follows from INV, stated for the reader */
    return 1;
}

/* one step by thread `self` from s, lock word o -> n.  Returns 0 if allowed (and updates *s), else a code:
   1 acquire although a writer is recorded, 2 commit by non-holder, 3 abort by non-holder, 4 not a lock transition */
static int mon_step(int self, struct state *s, int o, int n) {
    if (n == o) return 0;
    if ((o & 1) == 0 && (unsigned)n == ((unsigned)o | 1u)) {
        if (s->writer != 0) return 1;
        s->writer = self; s->ver = n; return 0;
    }
    if ((o & 1) == 1 && (unsigned)n == (unsigned)o + 1u) {
        if (s->writer != self) return 2;
        s->writer = 0; s->commits++; s->ver = n; return 0;
    }
    if ((o & 1) == 1 && (unsigned)n == (unsigned)o - 1u) {
        if (s->writer != self) return 3;
        s->writer = 0; s->ver = n; return 0;
    }
    return 4;
}

/* window assumption: fewer than 2^31 commits while a lease is outstanding */
static _Bool window_ok(void) {
    return S.s.commits < (1ul << 62) &&   /* commits is a mathematical counter: fewer than 2^62 commits in total */
           (!S.have_lease || (S.s.commits >= S.c0 && S.s.commits - S.c0 < (1ul << 31)));
}

void vx_yield(void) {
    struct state s2;
    s2.ver = nondet_int(); s2.writer = nondet_int(); s2.commits = nondet_ulong();
    if (S.env_quiet) return;
    __CPROVER_assume(rely(SELF, S.s, s2));
    S.s = s2;
    __CPROVER_assume(window_ok());
}

void vx_step(void *obj, int kind, unsigned long oldv, unsigned long newv) {
    int o = (int)oldv, n = (int)newv;
    (void)kind;
    __CPROVER_assert(obj == (void *)&S.s.ver, "atomic operation is on the lock word");
    __CPROVER_assert(n == S.s.ver, "stub consistency: new value is in the lock word");
    S.at = S.s;
    S.at.ver = o;
    {
        struct state t = S.at;
        int code = mon_step(SELF, &t, o, n);
        __CPROVER_assert(code != 1, "G.acquire: acquires only when no writer is recorded");
        __CPROVER_assert(code != 2, "G.commit: only the holder commits");
        __CPROVER_assert(code != 3, "G.abort: only the holder aborts");
        __CPROVER_assert(code != 4, "G.shape: step is acquire, commit, abort or no change");
        if (code == 0) {
            if (t.writer == SELF && S.at.writer != SELF) S.acq_ver = o;
            S.s = t;
        }
    }
    S.post = S.s;
    if (S.nsteps < 3) S.nsteps++;      /* saturating: 3 means 'three or more' */
    S.net += (unsigned)n - (unsigned)o;
    __CPROVER_assert(INV(S.s), "INV after own step");
    __CPROVER_assert(INV_self(), "INV_self after own step");
}

/* ---------------------------------------------------------------- loop hooks (DESIGN 2.4) */
/* start_read.0:  while ((v & 1) == 1) { wait(); v = version.load(); }
   invariant: v is the value seen by this thread's latest step, whose pre-state satisfied INV */
static _Bool I_sr(const int *vp) {
    return INV(S.s) && INV_self() && window_ok() && S.nsteps <= 3 && S.net == 0 && (vp == 0 || (S.nsteps >= 1 && *vp == S.at.ver)) && (S.nsteps == 0 || INV(S.at)) &&
           (!S.have_lease || S.at.commits >= S.c0);
}
void vx_enter_start_read_0(void) { S.first_sr = 1; }
_Bool vx_head_start_read_0(int *v, int *wait_i) {
#ifndef VX_NOHOOK
    if (S.first_sr) {
        __CPROVER_assert(I_sr(v), "loop start_read.0 invariant base");
        _Bool q = S.env_quiet, hl = S.have_lease; unsigned long c0 = S.c0; int w = S.s.writer == SELF, av = S.acq_ver;
        struct state s0 = S.s;
        struct ghost h; S = h;                                /* havoc everything the loop may change ... */
        if (v) *v = nondet_int();
        *wait_i = nondet_int();
        S.env_quiet = q; S.have_lease = hl; S.c0 = c0; S.acq_ver = av; /* ... except what no step changes */
        __CPROVER_assume(rely(SELF, s0, S.s));                 /* shared state: R* from loop entry (own steps are loads) */
        __CPROVER_assume(I_sr(v));
        S.first_sr = 0;
    } else {
        __CPROVER_assert(I_sr(v), "loop start_read.0 invariant step");
        __CPROVER_assume(0);
    }
#else
    (void)v; (void)wait_i;
#endif
    return 1;
}

/* start_write.0: while ((v & 1) == 1) { wait(); v = version.fetch_or(1); }
   invariant: v is the pre-value of this thread's latest step; if it was even this thread is now the writer */
static _Bool I_sw(const int *vp) {
    return INV(S.s) && INV_self() && window_ok() && S.nsteps <= 3 && (S.nsteps == 0 || INV(S.at)) &&
           (vp == 0 || (S.nsteps >= 1 && *vp == S.at.ver && (((*vp & 1) == 0) == (S.s.writer == SELF)) && ((*vp & 1) == 0 ? S.at.writer == 0 : 1)));
}
void vx_enter_start_write_0(void) { S.first_sw = 1; }
_Bool vx_head_start_write_0(int *v, int *wait_i) {
#ifndef VX_NOHOOK
    if (S.first_sw) {
        __CPROVER_assert(I_sw(v), "loop start_write.0 invariant base");
        _Bool q = S.env_quiet;
        struct ghost h; S = h;
        if (v) *v = nondet_int();
        *wait_i = nondet_int();
        S.env_quiet = q; S.have_lease = 0;
        __CPROVER_assume(I_sw(v));
        S.first_sw = 0;
    } else {
        __CPROVER_assert(I_sw(v), "loop start_write.0 invariant step");
        __CPROVER_assume(0);
    }
#else
    (void)v; (void)wait_i;
#endif
    return 1;
}

/* ---------------------------------------------------------------- contracts on the real methods */
#define LOCK (l == (void *)&S.s.ver)
#define PRE_COMMON (LOCK && INV(S.s) && INV_self() && S.nsteps == 0 && S.net == 0 && window_ok())
#define LEASE_OK(lv) (S.have_lease && (unsigned)(lv) == 2u * (unsigned)S.c0 && S.c0 <= S.s.commits)

/* clause 2 (issuing side): the lease is an even version read at an instant with no writer; it encodes the commit count */
int h_start_read(void *l)
__CPROVER_requires(PRE_COMMON && !S.have_lease)
__CPROVER_ensures((__CPROVER_return_value & 1) == 0)
__CPROVER_ensures(S.nsteps >= 1 && __CPROVER_return_value == S.at.ver && S.at.writer == 0)
__CPROVER_ensures((unsigned)__CPROVER_return_value == 2u * (unsigned)S.at.commits)
__CPROVER_ensures(S.net == 0 && INV(S.s) && INV_self())
__CPROVER_assigns(S);

/* clause 2: validation succeeds only if, at the instant of its load, no write phase is active and none has
   committed since the lease was issued (aborted phases excepted, clause 3); and it does succeed in that case */
_Bool h_validate(void *l, int lease_version)
__CPROVER_requires(PRE_COMMON && LEASE_OK(lease_version))
__CPROVER_ensures(S.nsteps >= 1 && S.net == 0)
__CPROVER_ensures(__CPROVER_return_value == (S.at.writer == 0 && S.at.commits == S.c0))
__CPROVER_ensures(INV(S.s) && INV_self())
__CPROVER_assigns(S);

_Bool h_end_read(void *l, int lease_version)
__CPROVER_requires(PRE_COMMON && LEASE_OK(lease_version))
__CPROVER_ensures(S.nsteps >= 1 && S.net == 0)
__CPROVER_ensures(__CPROVER_return_value == (S.at.writer == 0 && S.at.commits == S.c0))
__CPROVER_ensures(INV(S.s) && INV_self())
__CPROVER_assigns(S);

/* clause 1: on return this thread is THE writer (single ghost owner; stable under the rely) and it became so
   at an instant when no writer was recorded (G.acquire) */
void h_start_write(void *l)
__CPROVER_requires(PRE_COMMON && S.s.writer != SELF && !S.have_lease)
__CPROVER_ensures(S.s.writer == SELF && (S.s.ver & 1) == 1 && S.at.writer == 0)
__CPROVER_ensures(INV(S.s) && INV_self())
__CPROVER_assigns(S);

_Bool h_try_start_write(void *l)
__CPROVER_requires(PRE_COMMON && S.s.writer != SELF && !S.have_lease)
__CPROVER_ensures(S.nsteps == 1)
__CPROVER_ensures(__CPROVER_return_value == (S.s.writer == SELF))
__CPROVER_ensures(__CPROVER_return_value == (S.at.writer == 0))
__CPROVER_ensures(!__CPROVER_return_value ==> S.net == 0)
__CPROVER_ensures(INV(S.s) && INV_self())
__CPROVER_assigns(S);

/* upgrade succeeds only if no write committed or is active since the lease; on failure this thread's net effect
   on the lock word is none (clause 3: the internal abort restores the version it displaced) */
_Bool h_try_upgrade_to_write(void *l, int lease_version)
__CPROVER_requires(PRE_COMMON && S.s.writer != SELF && LEASE_OK(lease_version))
__CPROVER_ensures(__CPROVER_return_value == (S.s.writer == SELF))
__CPROVER_ensures(__CPROVER_return_value ==> (S.nsteps == 1 && S.at.writer == 0 && S.at.commits == S.c0 && S.s.commits == S.c0))
__CPROVER_ensures(!__CPROVER_return_value ==> S.net == 0)
__CPROVER_ensures((S.nsteps == 1 && S.at.writer == 0 && S.at.commits == S.c0) ==> __CPROVER_return_value)
__CPROVER_ensures(INV(S.s) && INV_self())
__CPROVER_assigns(S);

/* clause 3: abort restores exactly the (even) version this thread displaced when it acquired — the one outstanding
   readers hold — and counts as no commit */
void h_abort_write(void *l)
__CPROVER_requires(PRE_COMMON && S.s.writer == SELF)
__CPROVER_ensures(S.nsteps == 1 && S.post.ver == __CPROVER_old(S.acq_ver) && S.post.writer == 0)
__CPROVER_ensures(S.post.commits == __CPROVER_old(S.s.commits) && S.post.ver == __CPROVER_old(S.s.ver) - 1)
__CPROVER_ensures(S.s.writer != SELF && INV(S.s) && INV_self())
__CPROVER_assigns(S);

void h_end_write(void *l)
__CPROVER_requires(PRE_COMMON && S.s.writer == SELF)
__CPROVER_ensures(S.nsteps == 1 && S.post.writer == 0 && S.post.commits == __CPROVER_old(S.s.commits) + 1)
__CPROVER_ensures((unsigned)S.post.ver == (unsigned)__CPROVER_old(S.s.ver) + 1u)
__CPROVER_ensures(S.s.writer != SELF && INV(S.s) && INV_self())
__CPROVER_assigns(S);

_Bool h_is_write_locked(void *l)
__CPROVER_requires(PRE_COMMON)
__CPROVER_ensures(S.nsteps >= 1 && S.net == 0)
__CPROVER_ensures(__CPROVER_return_value == (S.at.writer != 0))
__CPROVER_ensures(__CPROVER_return_value == ((S.at.ver & 1) == 1))
__CPROVER_assigns(S);

int h_construct_version(void);

/* ---------------------------------------------------------------- harnesses */
#ifdef VX_CANARY
#define CANARY __CPROVER_assert(0, "canary: reachable after the call under contract")
#else
#define CANARY
#endif

static void init(void) {
    struct ghost h;
    S = h;                      /* fully nondeterministic state ... */
    S.nsteps = 0; S.net = 0;    /* ... constrained only by the contract's precondition */
#ifdef VX_QUIET
    S.env_quiet = 1;
    __CPROVER_assume(S.s.writer == 0);   /* clause 4: no concurrent writer */
#else
    S.env_quiet = 0;
#endif
}

void harness_start_read(void) { init(); h_start_read(&S.s.ver); CANARY; }
void harness_validate(void) { init(); int lv = nondet_int(); h_validate(&S.s.ver, lv); CANARY; }
void harness_end_read(void) { init(); int lv = nondet_int(); h_end_read(&S.s.ver, lv); CANARY; }
void harness_start_write(void) { init(); h_start_write(&S.s.ver); CANARY; }
void harness_try_start_write(void) { init(); h_try_start_write(&S.s.ver); CANARY; }
void harness_try_upgrade_to_write(void) { init(); int lv = nondet_int(); h_try_upgrade_to_write(&S.s.ver, lv); CANARY; }
void harness_abort_write(void) { init(); h_abort_write(&S.s.ver); CANARY; }
void harness_end_write(void) { init(); h_end_write(&S.s.ver); CANARY; }
void harness_is_write_locked(void) { init(); h_is_write_locked(&S.s.ver); CANARY; }

/* the default-constructed lock starts at an even version with no writer: INV holds with commits = 0 */
void harness_construct(void) {
    int v = h_construct_version();
    __CPROVER_assert(v == 0, "construct: initial version is 0 (even, INV with commits=0, writer=0)");
    CANARY;
}

/* ---------------------------------------------------------------- rely/guarantee lemmas (pure C, loop-free) */
static struct state any_state(void) {
    struct state s; s.ver = nondet_int(); s.writer = nondet_int(); s.commits = nondet_ulong(); return s;
}
void lemma_rely_reflexive(void) {
    struct state s = any_state(); int t = nondet_int();
    __CPROVER_assume(t != 0 && INV(s));
    __CPROVER_assert(rely(t, s, s), "lemma: R reflexive");
    CANARY;
}
void lemma_rely_transitive(void) {
    struct state a = any_state(), b = any_state(), c = any_state(); int t = nondet_int();
    __CPROVER_assume(t != 0 && INV(a) && rely(t, a, b) && rely(t, b, c));
    __CPROVER_assert(rely(t, a, c), "lemma: R transitive");
    CANARY;
}
/* every step the monitor allows thread t1 is within what thread t2 != t1 relies on */
void lemma_guarantee_within_rely(void) {
    struct state s = any_state(), s1; int t1 = nondet_int(), t2 = nondet_int(), n = nondet_int();
    __CPROVER_assume(t1 != 0 && t2 != 0 && t1 != t2 && INV(s) && s.commits < (1ul << 62));
    s1 = s;
    int code = mon_step(t1, &s1, s.ver, n);
    __CPROVER_assume(code == 0);
    __CPROVER_assert(INV(s1), "lemma: allowed step preserves INV");
    __CPROVER_assert(rely(t2, s, s1), "lemma: G(t1) within R(t2)");
    CANARY;
}
/* mutual exclusion is an invariant consequence: two distinct threads cannot both be the recorded writer, and a
   thread's belief 'I am the writer' survives every environment step */
void lemma_writer_stable(void) {
    struct state a = any_state(), b = any_state(); int t = nondet_int();
    __CPROVER_assume(t != 0 && INV(a) && rely(t, a, b));
    __CPROVER_assert((a.writer == t) == (b.writer == t), "lemma: holding / not holding the write lock is stable under R");
    __CPROVER_assert(a.writer != t || (b.ver == a.ver && b.commits == a.commits), "lemma: nothing moves while t holds the lock");
    CANARY;
}
/* the reading of INV used by clause 2: equal versions within the window, both even  =>  same commit count, no writer */
void lemma_version_identifies_commit(void) {
    struct state a = any_state(), b = any_state();
    __CPROVER_assume(INV(a) && INV(b) && a.writer == 0 && b.commits >= a.commits && b.commits - a.commits < (1ul << 31));
    __CPROVER_assume(a.ver == b.ver);
    __CPROVER_assert(b.writer == 0 && b.commits == a.commits, "lemma: same version => no writer, no commit in between");
    CANARY;
}
