"""C17 (partial, BOUNDED): RFC 4180 symbol column round trip — WriteStreamCSV::outputSymbol(dest, value, fieldValue=true)
followed by ReadStreamCSV::nextElement on the written text."""
import os
import re
import subprocess
from vxlib.extract import Source, strip_comments, ExtractError, blank, match_brace
from vxlib import rewrite as rw
from vxlib.cbmc import Harness

HERE = os.path.dirname(os.path.abspath(__file__))
WR = 'src/include/souffle/io/WriteStreamCSV.h'
RD = 'src/include/souffle/io/ReadStreamCSV.h'


def extract(ctx):
    log = {}
    wr = Source(os.path.join(ctx.repo, WR))
    rd = Source(os.path.join(ctx.repo, RD))
    out3, _ = wr.block(r'void\s+outputSymbol\s*\(\s*std::ostream&\s*\w+\s*,\s*const\s+std::string&\s*\w+\s*,\s*bool\s+\w+\s*\)\s*\{', semi=False)
    ne, _ = rd.block(r'std::string\s+nextElement\s*\(\s*std::string&\s*\w+\s*,\s*std::size_t&\s*\w+\s*,\s*bool&\s*\w+\s*\)\s*\{', semi=False)
    ctx.fact('WriteStreamCSV.h: a symbol COLUMN is written by outputSymbol(destination, symbolTable.decode(value), true)',
             wr.has_raw(r"case\s+'s':\s*outputSymbol\(destination,\s*symbolTable\.decode\(value\),\s*true\);"))
    ctx.fact("ReadStreamCSV.h: a symbol column stores the element returned by nextElement unchanged (symbolTable.encode(element))",
             rd.has_raw(r"case\s+'s':\s*\{\s*tuple\[inputMap\[column\]\]\s*=\s*symbolTable\.encode\(element\);"))
    rs = Source(os.path.join(ctx.repo, 'src/include/souffle/io/ReadStream.h'))
    rq, _ = rs.block(r'std::string\s+readQuotedSymbol\s*\(\s*const\s+std::string&\s*\w+\s*,\s*std::size_t\s+\w+\s*,\s*std::size_t\*\s*\w+\s*\)\s*\{', semi=False)
    rq2 = strip_comments(rq)
    rq2, n13q = re.subn(r'\bthrow\s+[^;]*;', '{ vx_throw(); return std::string(); }', rq2)
    ctx.fact('ReadStream.h: a symbol nested in a record/ADT is read by readSymbol -> readQuotedSymbol when it starts with a double quote',
             rs.has_raw(r"if\s*\(source\[pos\]\s*==\s*'\"'\)\s*\{\s*return\s+readQuotedSymbol\(source,\s*pos,\s*charactersRead\);"))
    ne2 = strip_comments(ne)
    ne2, n13 = re.subn(r'\bthrow\s+[^;]*;', '{ vx_throw(); return std::string(); }', ne2)
    log['R13 throw -> vx_throw(); return'] = n13
    text = ('#include "vx_csv.h"\nnamespace souffle {\nstruct CSVWriterScaffold {\n    bool rfc4180;\n' + strip_comments(out3) + '\n};\n'
            'struct CSVReaderScaffold {\n    bool rfc4180;\n    std::string delimiter;\n    std::size_t lineNumber;\n'
            '    bool readNextLine(std::string&, bool&) { return vx_readNextLine(); }\n' + ne2 + '\n' + rq2 + '\n};\n}\n')
    ctx.write('extracted.hpp', text)
    ctx.rewrites.update(log)
    ctx.dropped += ['everything of WriteStreamCSV/ReadStreamCSV except outputSymbol(dest, value, fieldValue) and nextElement(line, start, wasCRLF)',
                    'multi-line quoted fields (readNextLine is stubbed to "no more lines"), headers, gzip, JSON, SQLite, numbers, floats, records, ADTs']


def harnesses(ctx):
    cpp = os.path.join(HERE, 'wrappers.cpp')
    c = [os.path.join(HERE, 'contracts.c')]
    nq = 4 if ctx.tier == 'quick' else 6
    cap = 3 * nq + 6
    hs = []
    if ctx.prop == 'C18':
        ml = 6 if ctx.tier == 'quick' else 9
        return [Harness('csv.nextElement', 'harness_nextElement', cpp=cpp, c=c, defines=['VX_MAXLINE=%d' % ml, 'VX_CAP=%d' % (ml + 4)], enforce='h_nextElement',
                        unwind=ml + 5, must_have=['postcondition', 'string index'], timeout=1500, unwind_is_obligation=True,
                        bounded={'line_length': ml, 'note': 'all byte values except NUL; any single-character delimiter; rfc4180 on and off; any start position'},
                        clause='nextElement never reads outside the line and either reports an error or returns a field of the line (no crash, no hang: loops bounded by the line)',
                        funcs=['souffle::ReadStreamCSV::nextElement'])]
    hs.append(Harness('csv.roundtrip.nested', 'harness_nested', cpp=cpp, c=c, defines=['VX_MAXLEN=%d' % min(nq, 4), 'VX_CAP=%d' % (4 * min(nq, 4) + 12), 'VX_RFC=1'],
                      enforce='h_csv_nested', unwind=4 * min(nq, 4) + 14, must_have=['postcondition'], timeout=1500,
                      bounded={'symbol_length': min(nq, 4), 'note': 'all byte values except NUL, CR, LF; RFC 4180 mode'},
                      clause='a symbol NESTED in a record (written by outputSymbol(.., fieldValue=false) inside the quoted record field, un-doubled by nextElement, read by readQuotedSymbol) is read back unchanged',
                      funcs=['souffle::WriteStreamCSV::outputSymbol', 'souffle::ReadStreamCSV::nextElement', 'souffle::ReadStream::readQuotedSymbol']))
    for name, defs, what in (('rfc4180', ['VX_RFC=1'], 'RFC 4180 quoting'), ('plain', ['VX_RFC=0'], 'plain delimiter-separated text (symbols without the delimiter)')):
        hs.append(Harness('csv.roundtrip.' + name, 'harness_roundtrip', cpp=cpp, c=c, defines=['VX_MAXLEN=%d' % nq, 'VX_CAP=%d' % cap] + defs,
                          enforce='h_csv_roundtrip', unwind=cap + 2, must_have=['postcondition'], timeout=1500,
                          bounded={'symbol_length': nq, 'string_capacity': cap, 'note': 'all byte values except NUL, CR, LF; single-character delimiter other than the quote'},
                          clause='a symbol column written with %s and read back is the same symbol, and the reader is positioned after the delimiter' % what,
                          funcs=['souffle::WriteStreamCSV::outputSymbol(std::ostream&, const std::string&, bool)', 'souffle::ReadStreamCSV::nextElement']))
    return hs


def replay(ctx, h, r, ins, tr):
    last = (tr or {}).get('uint', {})
    if h.name == 'csv.nextElement':
        return replay_line(ctx, h, last, (tr or {}).get('last', {}))
    if h.name == 'csv.roundtrip.nested':
        return replay_nested(ctx, h, last)
    try:
        n = int(last.get('in_len'))
        def ch(i):
            for k in ('in_sym[%d]' % i, 'in_sym[%dl]' % i, 'in_sym[%dL]' % i):
                if k in last:
                    return last[k] & 255
            return 0
        sym = bytes(ch(i) for i in range(n))
        delim = int(last.get('in_delim', 44)) & 255
    except Exception as e:
        return None, 'no inputs in trace: %r' % (e,)
    exe = os.path.join(ctx.work, 'replay_csv')
    p = subprocess.run(['g++', '-std=c++17', '-fopenmp', '-I', os.path.join(ctx.repo, 'src/include'), os.path.join(HERE, '..', '..', 'replay', 'csv', 'replay.cpp'), '-o', exe],
                       stdout=subprocess.PIPE, stderr=subprocess.STDOUT)
    if p.returncode != 0:
        return None, 'native replay build failed: ' + p.stdout.decode()[-400:]
    rfc = '1' if 'VX_RFC=1' in h.defines else '0'
    q = subprocess.run([exe, rfc, str(delim), sym.hex()], stdout=subprocess.PIPE, stderr=subprocess.STDOUT, cwd=ctx.work)
    return q.returncode == 1, 'real WriteStreamCSV/ReadStreamCSV, rfc4180=%s delimiter=%r symbol=%r: %s' % (rfc, chr(delim), sym, q.stdout.decode().strip()[-300:])


def replay_nested(ctx, h, last):
    def ch(i):
        for k in ('in_sym[%d]' % i, 'in_sym[%dl]' % i, 'in_sym[%dL]' % i):
            if k in last:
                return last[k] & 255
        return 0
    try:
        n = int(last.get('in_len'))
        sym = bytes(ch(i) for i in range(n))
    except Exception as e:
        return None, 'no inputs in trace: %r' % (e,)
    exe = os.path.join(ctx.work, 'replay_csv_nested')
    p = subprocess.run(['g++', '-std=c++17', '-fopenmp', '-I', os.path.join(ctx.repo, 'src/include'), os.path.join(HERE, '..', '..', 'replay', 'csv', 'replay_nested.cpp'), '-o', exe],
                       stdout=subprocess.PIPE, stderr=subprocess.STDOUT)
    if p.returncode != 0:
        return None, 'native replay build failed: ' + p.stdout.decode()[-400:]
    q = subprocess.run([exe, sym.hex()], stdout=subprocess.PIPE, stderr=subprocess.STDOUT, cwd=ctx.work)
    return q.returncode == 1, 'real WriteStreamCSV::outputSymbol / ReadStreamCSV::nextElement / ReadStream::readQuotedSymbol on symbol %r: %s' % (sym, q.stdout.decode(errors='replace').strip()[-300:])


def replay_line(ctx, h, last, raw):
    def arr(name, i):
        for k in ('%s[%d]' % (name, i), '%s[%dl]' % (name, i), '%s[%dL]' % (name, i)):
            if k in last:
                return last[k] & 255
        return 0
    try:
        n = int(last.get('in_linelen'))
        line = bytes(arr('in_line', i) for i in range(n))
        delim = int(last.get('in_delim', 44)) & 255
        rfc = '1' if str(raw.get('in_rfc', '')).upper().startswith('T') or last.get('in_rfc') == 1 else '0'
    except Exception as e:
        return None, 'no inputs in trace: %r' % (e,)
    exe = os.path.join(ctx.work, 'replay_csv_line')
    p = subprocess.run(['g++', '-std=c++17', '-g', '-fsanitize=address', '-fopenmp', '-I', os.path.join(ctx.repo, 'src/include'),
                        os.path.join(HERE, '..', '..', 'replay', 'csv', 'replay_line.cpp'), '-o', exe], stdout=subprocess.PIPE, stderr=subprocess.STDOUT)
    if p.returncode != 0:
        return None, 'native replay build failed: ' + p.stdout.decode()[-400:]
    q = subprocess.run([exe, rfc, str(delim), line.hex()], stdout=subprocess.PIPE, stderr=subprocess.STDOUT, cwd=ctx.work)
    out = q.stdout.decode(errors='replace')
    bad = q.returncode != 0 or 'AddressSanitizer' in out
    first = [l for l in out.splitlines() if 'ERROR' in l or 'READ of' in l or 'nextElement' in l][:3]
    return bad, 'real ReadStreamCSV (ASan build) on line %r, delimiter %r, rfc4180=%s: %s' % (line, chr(delim), rfc, ' / '.join(first) if bad else out.strip()[-200:])


ASSUMPTIONS = [
    'BOUNDED: symbols of at most VX_MAXLEN characters (4 quick, 6 thorough), all byte values except NUL/CR/LF; not a proof for longer symbols',
    'single-character delimiter different from the double quote; single-line fields',
    'std::string / std::ostream / std::stringstream replaced by a bounded scaffold (units/csv/vx_csv.h)',
]
TRUSTED = ['units/csv/vx_csv.h', 'rewrite rule R13']

MUTANTS = [
    dict(name='writer: nested symbol quote without backslash', file=WR, find=r'if \(!fieldValue\) \{\s*destination << .\\\\.;\s*\}', repl='', expect=r'csv\.roundtrip\.nested', props=['C17']),
    dict(name='nextElement: record loop not bounded by the line', file=RD, find=r'\(record_parens != 0 && end < line\.length\(\)\)', repl='record_parens != 0', expect=r'csv\.nextElement', props=['C18']),
    dict(name='reader: keeps both quotes of a doubled quote', file=RD, find=r"(// two double-quote => one double-quote\s*element\.push_back\('\"'\);)", repl=r"\1 element.push_back('\"');", expect=r'csv\.roundtrip\.rfc4180', props=['C17']),
    dict(name='reader: start not advanced past delimiter', file=RD, find=r'start = pos \+ delimiter\.size\(\);', repl='start = pos;', expect=r'csv\.roundtrip\.rfc4180', props=['C17']),
    dict(name='writer: quote not doubled', file=WR, find=r"(if \(ch == '\"'\) \{.*?)destination << '\"';(\s*\} else if)", repl=r'\1\2', expect=r'csv\.roundtrip\.(rfc4180|nested)', props=['C17']),
]
