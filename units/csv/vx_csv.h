// Scaffold for the CSV symbol writer/reader (TRUSTED): a bounded std::string (capacity VX_CAP), an append-only ostream,
// a no-op stringstream for error messages.  Bounded: every string involved has at most VX_CAP-1 characters.
#ifndef VX_CSV_H
#define VX_CSV_H
#include <cstddef>
#include <algorithm>
#include <stdexcept>
#ifndef VX_CAP
#define VX_CAP 16
#endif
extern "C" { void vx_throw(void); bool vx_readNextLine(void); }
namespace std {
struct string {
    char d[VX_CAP];
    size_t n;
    string() : n(0) { d[0] = 0; }
    string(const string& o) : n(o.n) { for (size_t i = 0; i < VX_CAP; i = i + 1) d[i] = o.d[i]; }
    string& operator=(const string& o) { n = o.n; for (size_t i = 0; i < VX_CAP; i = i + 1) d[i] = o.d[i]; return *this; }
    string(const char* s) : n(0) { while (s[n] != 0) { d[n] = s[n]; n = n + 1; } d[n] = 0; }
    size_t length() const { return n; }
    size_t size() const { return n; }
    // std::string::operator[]: defined for i <= size() (s[size()] is the terminator); anything beyond is out of bounds
    char& operator[](size_t i) { __CPROVER_assert(i <= n, "string index <= size()"); return d[i]; }
    const char& operator[](size_t i) const { __CPROVER_assert(i <= n, "string index <= size()"); return d[i]; }
    void push_back(char c) { __CPROVER_assert(n + 1 < VX_CAP, "bounded string: capacity"); d[n] = c; n = n + 1; d[n] = 0; }
    // position of the first occurrence of pat at or after pos, or npos
    size_t find(const string& pat, size_t pos) const {
        for (size_t i = pos; i + pat.n <= n; i = i + 1) {
            bool ok = true;
            for (size_t j = 0; j < pat.n; j = j + 1) if (d[i + j] != pat.d[j]) ok = false;
            if (ok) return i;
        }
        return (size_t)-1;
    }
    size_t find(char c) const {
        for (size_t i = 0; i < n; i = i + 1) if (d[i] == c) return i;
        return (size_t)-1;
    }
    string substr(size_t pos, size_t len) const {
        string r;
        for (size_t i = pos; i < n && i - pos < len; i = i + 1) r.push_back(d[i]);
        return r;
    }
    static const size_t npos = (size_t)-1;
};
struct ostream {
    string buf;
    ostream& operator<<(char c) { buf.push_back(c); return *this; }
    ostream& operator<<(const string& s) { for (size_t i = 0; i < s.n; i = i + 1) buf.push_back(s.d[i]); return *this; }
};
struct stringstream {
    stringstream& operator<<(const char*) { return *this; }
    stringstream& operator<<(size_t) { return *this; }
    string str() const { return string(); }
};
}
#endif
