// Scaffold for the CSV symbol writer/reader (TRUSTED): a bounded std::string (capacity VX_CAP), an append-only ostream,
// a no-op stringstream for error messages.  Bounded: every string involved has at most VX_CAP-1 characters.
#ifndef VX_CSV_H
#define VX_CSV_H
#include <cstddef>
#include <algorithm>
#include <stdexcept>
extern "C" { void vx_throw(void); bool vx_readNextLine(void); }
#include <vx_bstring.h>
namespace std {
struct ostream {
    string buf;
    ostream& operator<<(char c) { buf.push_back(c); return *this; }
    ostream& operator<<(const string& s) { for (size_t i = 0; i < s.n; i = i + 1) buf.push_back(s.d[i]); return *this; }
};
struct stringstream {
    stringstream& operator<<(const char*) { return *this; }
    stringstream& operator<<(size_t) { return *this; }
    string str() const { return string(); }
};
}
#endif
