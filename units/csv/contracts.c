/* C17 (partial, bounded) — "writing the relation and reading the file back yields exactly the same tuples", symbol column. */
#include <stddef.h>
#ifndef VX_MAXLEN
#define VX_MAXLEN 4
#endif
#ifndef VX_CAP
#define VX_CAP 16
#endif
#ifndef VX_MAXLINE
#define VX_MAXLINE 6
#endif
#ifndef VX_RFC
#define VX_RFC 1
#endif
char in_sym[VX_MAXLEN]; unsigned long in_len; char in_delim; unsigned long in_k;   /* in_k: ghost index */
char g_out[VX_CAP]; unsigned long g_outlen, g_start, g_written; int g_threw;
void vx_throw(void) { g_threw = 1; }
_Bool vx_readNextLine(void) { return 0; }
int nondet_int(void); unsigned long nondet_ulong(void); char nondet_char(void);

#define DELIM_OK (in_delim != '"' && in_delim != '\n' && in_delim != '\r' && in_delim != 0)
_Bool h_csv_roundtrip(const char *sym, unsigned long len, char delim, _Bool rfc, char *out, unsigned long *outlen, unsigned long *start_out, unsigned long *written)
__CPROVER_requires(sym == in_sym && len == in_len && len <= VX_MAXLEN && delim == in_delim && DELIM_OK && rfc == VX_RFC)
__CPROVER_requires(out == g_out && outlen == &g_outlen && start_out == &g_start && written == &g_written && g_threw == 0 && in_k < VX_MAXLEN)
/* characters the format can represent on one line; without quoting the symbol must not contain the delimiter */
__CPROVER_requires(in_k >= in_len || (in_sym[in_k] != '\n' && in_sym[in_k] != '\r' && in_sym[in_k] != 0 && (VX_RFC || (in_sym[in_k] != in_delim && !(in_delim == ',' && (in_sym[in_k] == '[' || in_sym[in_k] == ']'))))))
__CPROVER_ensures(g_threw == 0)
__CPROVER_ensures(g_outlen == in_len)
__CPROVER_ensures(in_k < in_len ==> g_out[in_k] == in_sym[in_k])
__CPROVER_ensures(g_start == g_written + 1)
__CPROVER_assigns(g_out, g_outlen, g_start, g_written, g_threw);

/* nested symbol (record field): written with backslash escapes inside the RFC 4180 quoted record, read back unchanged */
unsigned long g_consumed;
_Bool h_csv_nested(const char *sym, unsigned long len, char *out, unsigned long *outlen, unsigned long *consumed)
__CPROVER_requires(sym == in_sym && len == in_len && len <= VX_MAXLEN && out == g_out && outlen == &g_outlen && consumed == &g_consumed && g_threw == 0 && in_k < VX_MAXLEN)
__CPROVER_requires(in_k >= in_len || (in_sym[in_k] != '\n' && in_sym[in_k] != '\r' && in_sym[in_k] != 0))
__CPROVER_ensures(g_threw == 0 && g_outlen == in_len && g_consumed == 1)
__CPROVER_ensures(in_k < in_len ==> g_out[in_k] == in_sym[in_k])
__CPROVER_assigns(g_out, g_outlen, g_consumed, g_start, g_written, g_threw);

/* C18: nextElement on ANY line (bounded length): it either reports an error or returns a field of the line, and never reads
   outside the line (the scaffold string asserts index <= size() on every access) */
char in_line[VX_CAP]; unsigned long in_linelen, in_start; _Bool in_rfc;
_Bool h_nextElement(const char *text, unsigned long len, unsigned long start_in, char delim, _Bool rfc, unsigned long *outlen, unsigned long *start_out)
__CPROVER_requires(text == in_line && len == in_linelen && len <= VX_MAXLINE && start_in == in_start && start_in <= len && delim == in_delim && in_delim != 0 && rfc == in_rfc)
__CPROVER_requires(outlen == &g_outlen && start_out == &g_start && g_threw == 0)
__CPROVER_ensures(g_threw != 0 || (g_outlen <= in_linelen && g_start <= in_linelen + 1 && g_start >= in_start))
__CPROVER_assigns(g_outlen, g_start, g_threw);

#ifdef VX_CANARY
#define CANARY __CPROVER_assert(0, "canary: reachable after the call under contract")
#else
#define CANARY
#endif
void harness_roundtrip(void) {
    for (int i = 0; i < VX_MAXLEN; i++) in_sym[i] = nondet_char();
    in_len = nondet_ulong(); in_delim = nondet_char(); in_k = nondet_ulong(); g_threw = 0;
    __CPROVER_assume(in_len <= VX_MAXLEN);
    /* the per-character restriction holds for EVERY position, not only the ghost index */
    for (int i = 0; i < VX_MAXLEN; i++)
        __CPROVER_assume(i >= (int)in_len || (in_sym[i] != '\n' && in_sym[i] != '\r' && in_sym[i] != 0 && (VX_RFC || (in_sym[i] != in_delim && !(in_delim == ',' && (in_sym[i] == '[' || in_sym[i] == ']'))))));
    h_csv_roundtrip(in_sym, in_len, in_delim, VX_RFC, g_out, &g_outlen, &g_start, &g_written);
    CANARY;
}

void harness_nested(void) {
    for (int i = 0; i < VX_MAXLEN; i++) in_sym[i] = nondet_char();
    in_len = nondet_ulong(); in_k = nondet_ulong(); g_threw = 0;
    __CPROVER_assume(in_len <= VX_MAXLEN);
    for (int i = 0; i < VX_MAXLEN; i++) __CPROVER_assume(i >= (int)in_len || (in_sym[i] != '\n' && in_sym[i] != '\r' && in_sym[i] != 0));
    h_csv_nested(in_sym, in_len, g_out, &g_outlen, &g_consumed);
    CANARY;
}
_Bool nondet_bool(void);
void harness_nextElement(void) {
    for (int i = 0; i < VX_CAP; i++) in_line[i] = nondet_char();
    in_linelen = nondet_ulong(); in_start = nondet_ulong(); in_delim = nondet_char(); in_rfc = nondet_bool(); g_threw = 0;
    __CPROVER_assume(in_linelen <= VX_MAXLINE && in_start <= in_linelen && in_delim != 0);
    for (int i = 0; i < VX_MAXLINE; i++) __CPROVER_assume(i >= (int)in_linelen || in_line[i] != 0);
    h_nextElement(in_line, in_linelen, in_start, in_delim, in_rfc, &g_outlen, &g_start);
    CANARY;
}
