#include "extracted.hpp"
using namespace souffle;
extern "C" {
// write the symbol as a column value, append delimiter and a second column, read the first column back
bool h_csv_roundtrip(const char* sym, unsigned long len, char delim, bool rfc, char* out, unsigned long* outlen, unsigned long* start_out, unsigned long* written) {
    std::string value;
    for (unsigned long i = 0; i < len; i = i + 1) value.push_back(sym[i]);
    CSVWriterScaffold w; w.rfc4180 = rfc;
    std::ostream os;
    w.outputSymbol(os, value, true);
    *written = os.buf.n;
    std::string line = os.buf;
    line.push_back(delim);
    line.push_back('x');
    CSVReaderScaffold r; r.rfc4180 = rfc; r.lineNumber = 1; r.delimiter.push_back(delim);
    std::size_t start = 0; bool wasCRLF = false;
    std::string element = r.nextElement(line, start, wasCRLF);
    for (unsigned long i = 0; i < element.n; i = i + 1) out[i] = element.d[i];
    *outlen = element.n; *start_out = start;
    return true;
}
// nested symbol: "[" + outputSymbol(v, fieldValue=false) + "]" inside an RFC 4180 quoted field, read back through nextElement and readQuotedSymbol
bool h_csv_nested(const char* sym, unsigned long len, char* out, unsigned long* outlen, unsigned long* consumed) {
    std::string value;
    for (unsigned long i = 0; i < len; i = i + 1) value.push_back(sym[i]);
    CSVWriterScaffold w; w.rfc4180 = true;
    std::ostream os;
    os << '"'; os << '[';
    w.outputSymbol(os, value, false);
    os << ']'; os << '"';
    std::string line = os.buf;
    CSVReaderScaffold r; r.rfc4180 = true; r.lineNumber = 1; r.delimiter.push_back(',');
    std::size_t start = 0; bool wasCRLF = false;
    std::string element = r.nextElement(line, start, wasCRLF);       // "[" quoted-symbol "]"
    std::size_t used = 0;
    std::string back = r.readQuotedSymbol(element, 1, &used);
    for (unsigned long i = 0; i < back.n; i = i + 1) out[i] = back.d[i];
    *outlen = back.n; *consumed = used + 2 == element.n ? 1 : 0;      // '[' + symbol text + ']' is the whole element
    return true;
}
// C18: one call of nextElement on an arbitrary line
bool h_nextElement(const char* text, unsigned long len, unsigned long start_in, char delim, bool rfc, unsigned long* outlen, unsigned long* start_out) {
    std::string line;
    for (unsigned long i = 0; i < len; i = i + 1) line.push_back(text[i]);
    CSVReaderScaffold r; r.rfc4180 = rfc; r.lineNumber = 1; r.delimiter.push_back(delim);
    std::size_t start = start_in; bool wasCRLF = false;
    std::string element = r.nextElement(line, start, wasCRLF);
    *outlen = element.n; *start_out = start;
    return true;
}
}
