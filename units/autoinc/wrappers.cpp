#include <atomic>
#include "extracted.hpp"
using namespace souffle;
extern "C" {
int h_interp(void* cell) { return interp_incCounter(*(interp_counter_t*)cell); }
int h_synth(void* cell) { return synth_autoinc(*(synth_ctr_t*)cell); }
}
