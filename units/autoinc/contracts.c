/* C22 — auto-increment uniqueness.  The counter cell is S.ctr; ghost k = number of increment steps taken so far by
 * all threads; c0 = the counter's value when k was 0.   INV:  ctr == c0 + k (mod 2^32). */
#include <stdint.h>
struct st { int ctr; unsigned long k; };
struct {
    struct st s;
    unsigned c0;
    unsigned nchg;          /* own steps that changed the counter, saturating at 3 */
    unsigned long j_own;    /* ghost index of own increment step (= k before the step) */
} S;

int nondet_int(void); unsigned long nondet_ulong(void); _Bool nondet_bool(void);
_Bool vx_nondet_bool(void) { return nondet_bool(); }

static _Bool INV(struct st s) { return (unsigned)s.ctr == S.c0 + (unsigned)s.k && s.k < (1ul << 32); }
/* what other threads may do: any number of +1 steps */
static _Bool rely(struct st a, struct st b) { return INV(b) && b.k >= a.k; }
/* one own step o -> n: allowed iff no change or exactly +1 */
static int mon_step(struct st *s, int o, int n) {
    if (n == o) return 0;
    if ((unsigned)n == (unsigned)o + 1u) { s->ctr = n; s->k++; return 0; }
    return 1;
}
void vx_fatal(void) { __CPROVER_assume(0); }
void vx_yield(void) {
    struct st b; b.ctr = nondet_int(); b.k = nondet_ulong();
    __CPROVER_assume(rely(S.s, b));
    S.s = b;
}
void vx_step(void *obj, int kind, unsigned long oldv, unsigned long newv) {
    int o = (int)oldv, n = (int)newv; (void)kind;
    __CPROVER_assert(obj == (void *)&S.s.ctr, "atomic operation is on the counter");
    struct st t = S.s; t.ctr = o;
    unsigned long kb = t.k;
    int code = mon_step(&t, o, n);
    __CPROVER_assert(code == 0, "G.step: an own step leaves the counter unchanged or adds exactly 1");
    if (code == 0) { if (n != o) { S.j_own = kb; if (S.nchg < 3) S.nchg++; } S.s = t; }
    __CPROVER_assert((unsigned)S.s.ctr == S.c0 + (unsigned)S.s.k, "INV after own step");
}

#define PRE (cell == (void *)&S.s.ctr && INV(S.s) && S.s.k < (1ul << 32) - 1 && S.nchg == 0)
#define POST (S.nchg == 1 && (unsigned)__CPROVER_return_value == S.c0 + (unsigned)S.j_own && S.j_own < S.s.k)
int h_interp(void *cell) __CPROVER_requires(PRE) __CPROVER_ensures(POST) __CPROVER_assigns(S);
int h_synth(void *cell) __CPROVER_requires(PRE) __CPROVER_ensures(POST) __CPROVER_assigns(S);

#ifdef VX_CANARY
#define CANARY __CPROVER_assert(0, "canary: reachable after the call under contract")
#else
#define CANARY
#endif
static void init(void) { S.s.ctr = nondet_int(); S.s.k = nondet_ulong(); S.c0 = (unsigned)nondet_int(); S.nchg = 0; S.j_own = nondet_ulong(); }
void harness_interp(void) { init(); h_interp(&S.s.ctr); CANARY; }
void harness_synth(void) { init(); h_synth(&S.s.ctr); CANARY; }

void lemma_distinct(void) {
    unsigned c0 = (unsigned)nondet_int(); unsigned long j1 = nondet_ulong(), j2 = nondet_ulong();
    __CPROVER_assume(j1 < (1ul << 32) && j2 < (1ul << 32) && j1 != j2);
    __CPROVER_assert(c0 + (unsigned)j1 != c0 + (unsigned)j2, "lemma: distinct step indices give distinct values");
    CANARY;
}
void lemma_rely(void) {
    struct st a, b, c; a.ctr = nondet_int(); a.k = nondet_ulong(); b.ctr = nondet_int(); b.k = nondet_ulong(); c.ctr = nondet_int(); c.k = nondet_ulong();
    S.c0 = (unsigned)nondet_int();
    __CPROVER_assume(INV(a));
    __CPROVER_assert(rely(a, a), "lemma: R reflexive");
    if (rely(a, b) && rely(b, c)) __CPROVER_assert(rely(a, c), "lemma: R transitive");
    int n = nondet_int(); struct st t = a;
    if (a.k < (1ul << 32) - 1 && mon_step(&t, a.ctr, n) == 0) __CPROVER_assert(rely(a, t), "lemma: G within R");
    CANARY;
}
int nondet_int(void);
int vx_omp_nondet(void) { return nondet_int(); }
