"""C22 unit: auto-increment counter — interpreter Engine::incCounter and the synthesiser's emitted `(ctr++)`."""
import os
import re
from vxlib.extract import Source, strip_comments, ExtractError
from vxlib import ramtypes
from vxlib.cbmc import Harness

HERE = os.path.dirname(os.path.abspath(__file__))
ENGINE_CPP = 'src/interpreter/Engine.cpp'
ENGINE_H = 'src/interpreter/Engine.h'
SYNTH = 'src/synthesiser/Synthesiser.cpp'


def string_literals(code):
    """concatenate the string literals streamed into `out` in an emitter body (PRINT_*_COMMENT macros ignored)"""
    code = re.sub(r'PRINT_(BEGIN|END)_COMMENT\(out\);', '', code)
    stmts = [s.strip() for s in code.split(';') if s.strip()]
    parts = []
    for s in stmts:
        if not s.startswith('out'):
            raise ExtractError('AutoIncrement emitter contains a statement that is not `out << "..."`: %r' % s[:80])
        items = [x.strip() for x in s.split('<<')[1:]]
        for it in items:
            m = re.match(r'^"((?:[^"\\]|\\.)*)"$', it)
            if not m:
                raise ExtractError('AutoIncrement emitter streams a non-literal: %r' % it[:80])
            parts.append(m.group(1))
    return ''.join(parts)


def extract(ctx):
    ramtypes.extract(ctx)
    eng = Source(os.path.join(ctx.repo, ENGINE_CPP))
    body, _ = eng.body(r'RamDomain\s+Engine::incCounter\s*\(\s*\)\s*\{')
    engh = Source(os.path.join(ctx.repo, ENGINE_H))
    m = engh.find(r'([\w:<>\s]+?)\s+counter\s*(\{[^}]*\}|=[^;]*)?;')
    ctype = re.sub(r'\s+', ' ', m.group(1).strip().split('\n')[-1].strip())
    ctx.fact('Engine.h: `counter` is declared with an atomic type (%s)' % ctype, True)
    # the interpreter reaches the counter only through incCounter
    _, (bs, be) = eng.body(r'RamDomain\s+Engine::incCounter\s*\(\s*\)\s*\{')
    outside = [m_.start() for m_ in re.finditer(r'\bcounter\b', eng.b) if not (bs <= m_.start() < be)]
    ctx.fact('Engine.cpp: every use of `counter` is inside incCounter', len(outside) == 0)
    ctx.fact('Engine.cpp: CASE(AutoIncrement) returns incCounter()', eng.has(r'CASE\(AutoIncrement\)\s*return\s+incCounter\(\);'))
    syn = Source(os.path.join(ctx.repo, SYNTH))
    ebody, _ = syn.body(r'void\s+visit_\(type_identity<AutoIncrement>[^{]*\{')
    # string literal contents are needed: take the raw text of that span
    emitted = string_literals(strip_comments(ebody))
    fm = re.search(r'addField\(\s*"([^"]+)"\s*,\s*"ctr"', syn.text)
    am = re.search(r'make_tuple\(\s*Reference\s*,\s*"ctr"\s*,\s*"([^"]+)"\s*\)', syn.text)
    if not fm or not am:
        raise ExtractError('synthesiser: declaration of field/argument "ctr" not found')
    ctx.fact('Synthesiser.cpp: main-class field `ctr` and subroutine-class reference `ctr` have the same type (%s)' % fm.group(1),
             fm.group(1) == am.group(1))
    _, (es, ee) = syn.body(r'void\s+visit_\(type_identity<AutoIncrement>[^{]*\{')
    others = [m_.group(0) for m_ in re.finditer(r'"[^"\n]*\bctr\b[^"\n]*"', syn.text) if m_.group(0) != '"ctr"' and not (es <= m_.start() < ee)]
    ctx.fact('Synthesiser.cpp: no string outside the AutoIncrement emitter mentions `ctr` (other than its declarations)', len(others) == 0)
    # conditional compilation as in the build that ships (CMake: SOUFFLE_USE_OPENMP=ON defines _OPENMP): an `#ifdef _OPENMP` branch of
    # incCounter must be part of the verified text; the OpenMP queries return nondeterministic values
    text = ('#define _OPENMP 201511\nextern "C" int vx_omp_nondet(void);\ninline int omp_in_parallel() { return vx_omp_nondet(); }\n'
            'inline int omp_get_thread_num() { return vx_omp_nondet(); }\ninline int omp_get_num_threads() { return vx_omp_nondet(); }\n'
            'inline int omp_get_max_threads() { return vx_omp_nondet(); }\n'
            '#include <atomic>\n#include <cassert>\n#include "ramtypes.hpp"\n// souffle::fatal terminates the process: the path ends, no value is handed out\nextern "C" void vx_fatal(void);\n#define fatal(...) vx_fatal()\nnamespace souffle {\ntypedef %s interp_counter_t;\ntypedef %s synth_ctr_t;\n' % (ctype, fm.group(1)) +
            '// interpreter: body of Engine::incCounter, `counter` declared as in Engine.h\n'
            'RamDomain interp_incCounter(%s& counter) {%s}\n'
            '// synthesiser: the emitted expression, `ctr` declared as the emitted field\n'
            'RamDomain synth_autoinc(%s& ctr) { return %s; }\n}\n' % (ctype, strip_comments(body), fm.group(1), emitted))
    ctx.write('extracted.hpp', text)
    ctx.rewrites['emitted AutoIncrement expression'] = emitted
    ctx.rewrites['interpreter counter type'] = ctype
    ctx.rewrites['synthesiser ctr type'] = fm.group(1)
    ctx.dropped.append('the surrounding Engine/generated-class objects: only the counter cell and the one expression that touches it are kept')


def harnesses(ctx):
    cpp = os.path.join(HERE, 'wrappers.cpp')
    c = [os.path.join(HERE, 'contracts.c')]
    G = ['postcondition']
    hs = [
        Harness('autoinc.interp', 'harness_interp', cpp=cpp, c=c, enforce='h_interp', must_have=G,
                clause='each call takes exactly one atomic +1 step and returns the value tied to its own step index',
                funcs=['souffle::interpreter::Engine::incCounter']),
        Harness('autoinc.synth', 'harness_synth', cpp=cpp, c=c, enforce='h_synth', must_have=G,
                clause='same, for the expression the synthesiser emits',
                funcs=['Synthesiser: visit_(AutoIncrement) emitted expression']),
        Harness('autoinc.lemma.distinct', 'lemma_distinct', c=c, unwind=None, must_have=['lemma'],
                clause='distinct owned step indices (fewer than 2^32 apart) give distinct values'),
        Harness('autoinc.lemma.rely', 'lemma_rely', c=c, unwind=None, must_have=['lemma'],
                clause='rely reflexive/transitive, guarantee within rely'),
    ]
    return hs


ASSUMPTIONS = [
    'sequential consistency (memory orders ignored)',
    'fewer than 2^32 autoinc() uses per run (the counter is 32 bits wide: after 2^32 uses values necessarily repeat)',
    'every thread reaches the counter only through the verified expression (static facts: single use site in Engine.cpp, single emitted string in Synthesiser.cpp)',
    'the convention is fixed to post-increment (value = counter before own step): mixing pre/post-increment sites would duplicate values',
]
TRUSTED = ['stubs/atomic', 'CBMC C++ front end', 'text extraction of the emitted string literal (units/autoinc/unit.py)']

MUTANTS = [
    dict(name='interp load+store', file=ENGINE_CPP, find=r'return counter\+\+;', repl=r'RamDomain v = counter.load(); counter.store(v + 1); return v;', expect=r'G\.step|postcondition'),
    dict(name='interp no increment', file=ENGINE_CPP, find=r'return counter\+\+;', repl=r'return counter;', expect=r'postcondition'),
    dict(name='interp += 2 returns half', file=ENGINE_CPP, find=r'return counter\+\+;', repl=r'return counter.fetch_add(2) / 2;', expect=r'G\.step|postcondition'),
    dict(name='synth non-atomic expression', file=SYNTH, find=r'"\(ctr\+\+\)"', repl=r'"(ctr = ctr + 1)"', expect=r'G\.step|postcondition'),
    dict(name='synth field not atomic', file=SYNTH, find=r'"std::atomic<RamDomain>"(\)\);\s*args\.push_back\(std::make_tuple\(Reference, "inputDirectory".*?)addField\("std::atomic<RamDomain>", "ctr"', repl=r'"RamDomain"\1addField("RamDomain", "ctr"', expect=r'postcondition'),
    dict(name='interp counter not atomic', file=ENGINE_H, find=r'std::atomic<RamDomain> counter\{0\};', repl=r'RamDomain counter{0};', expect=r'postcondition'),
]
