/* C18 (bounded) — whole-function contracts for RamUnsignedFromString / RamSignedFromString / canBeParsedAs*.
 * Input literal: in_s[0..in_len).  The std parser is assumed; WHICH text and base it is given is what is verified. */
#include <stddef.h>
#ifndef VX_LEN
#define VX_LEN 5
#endif
char in_s[VX_LEN + 1]; unsigned long in_len; int in_base; _Bool in_pos_null, in_unsigned;
unsigned long in_val, in_pos; _Bool in_throws;             /* what the std parser answers */
char g_arg[VX_LEN + 4]; unsigned long g_arglen; int g_argbase, g_which, g_calls, g_threw; unsigned long g_pos;
int nondet_int(void); unsigned long nondet_ulong(void); _Bool nondet_bool(void); char nondet_char(void);
void vx_throw(void) { g_threw = 1; }
_Bool vx_threw_get(void) { _Bool t = g_threw != 0; g_threw = 0; return t; }
unsigned long vx_ext_parse(int which, const char *text, unsigned long len, int base, int *throws, unsigned long *pos) {
    g_calls++; g_which = which; g_argbase = base; g_arglen = len;
    for (unsigned long i = 0; i < VX_LEN + 4; i++) g_arg[i] = (i < len) ? text[i] : 0;
    *throws = in_throws; *pos = in_pos;
    return in_val;
}
unsigned vx_ext_ufs_rec(const char *text, unsigned long len, int base, int *throws, unsigned long *pos) {
    g_calls++; g_which = 9; g_argbase = base; g_arglen = len;
    for (unsigned long i = 0; i < VX_LEN + 4; i++) g_arg[i] = (i < len) ? text[i] : 0;
    *throws = in_throws; *pos = in_pos;
    return (unsigned)in_val;
}
/* ---- specification helpers over the input literal ---- */
static _Bool starts(const char *p) { unsigned long i = 0; for (; p[i]; i++) if (i >= in_len || in_s[i] != p[i]) return 0; return 1; }
/* expected text handed to the parser: the literal with `skip` leading characters removed, optionally re-prefixed with '-' */
static _Bool arg_is(unsigned long skip, _Bool minus) {
    unsigned long want = in_len - skip + (minus ? 1 : 0);
    if (g_arglen != want) return 0;
    if (minus && g_arg[0] != '-') return 0;
    for (unsigned long i = 0; i < VX_LEN; i++) if (i + skip < in_len && g_arg[i + (minus ? 1 : 0)] != in_s[i + skip]) return 0;
    return 1;
}
#define BASE_OK (in_base == 0 || in_base == 2 || in_base == 10 || in_base == 16)

/* unsigned */
static int u_base(void) { return in_base != 0 ? in_base : (starts("0b") ? 2 : (starts("0x") ? 16 : 10)); }
static _Bool u_strip(void) { return u_base() == 2 && starts("0b"); }
unsigned h_ufs(const char *text, unsigned long len, unsigned long *position, int base)
__CPROVER_requires(text == in_s && len == in_len && len <= VX_LEN && base == in_base && BASE_OK && (position == NULL || position == &g_pos) && g_threw == 0 && g_calls == 0)
__CPROVER_requires(in_pos < (1ul << 62))
__CPROVER_ensures(starts("-") ==> (g_threw != 0 && g_calls == 0))
__CPROVER_ensures(!starts("-") ==> (g_calls == 1 && (g_which == 4 || g_which == 5) && g_argbase == u_base() && arg_is(u_strip() ? 2 : 0, 0)))
__CPROVER_ensures(!starts("-") ==> ((g_threw != 0) == (in_throws || in_val > 0xFFFFFFFFul)))
__CPROVER_ensures(g_threw == 0 ==> ((unsigned long)__CPROVER_return_value == in_val && (position == NULL || g_pos == in_pos + (u_strip() ? 2ul : 0ul))))
__CPROVER_assigns(g_arg, g_arglen, g_argbase, g_which, g_calls, g_threw, g_pos);

/* signed */
static int s_base(void) { return in_base != 0 ? in_base : ((starts("-0b") || starts("0b")) ? 2 : ((starts("-0x") || starts("0x")) ? 16 : 10)); }
int h_sfs(const char *text, unsigned long len, unsigned long *position, int base)
__CPROVER_requires(text == in_s && len == in_len && len <= VX_LEN && base == in_base && BASE_OK && (position == NULL || position == &g_pos) && g_threw == 0 && g_calls == 0)
__CPROVER_requires(in_pos < (1ul << 62) && (long)in_val >= -2147483648l && (long)in_val <= 2147483647l)
/* an explicit base 2 without a 0b prefix is not a form the callers produce (base 0 dispatches by prefix) */
__CPROVER_requires(s_base() != 2 || starts("0b") || starts("-0b"))
__CPROVER_ensures(g_calls == 1 && g_which == 1 && g_argbase == s_base())
__CPROVER_ensures(s_base() == 2 ? (starts("-0b") ? arg_is(3, 1) : arg_is(2, 0)) : arg_is(0, 0))
__CPROVER_ensures((g_threw != 0) == in_throws)
__CPROVER_ensures(g_threw == 0 ==> ((long)__CPROVER_return_value == (long)in_val && (position == NULL || g_pos == in_pos + (s_base() == 2 ? 2ul : 0ul))))
__CPROVER_assigns(g_arg, g_arglen, g_argbase, g_which, g_calls, g_threw, g_pos);

/* CSV unsigned column */
unsigned h_rru(const char *text, unsigned long len, unsigned long *charactersRead)
__CPROVER_requires(text == in_s && len == in_len && len >= 1 && len <= VX_LEN && charactersRead == &g_pos && g_threw == 0 && g_calls == 0 && in_pos < (1ul << 62))
__CPROVER_ensures(g_calls == 1 && arg_is(0, 0) && g_argbase == (starts("0b") ? 2 : (starts("0x") ? 16 : 10)))
__CPROVER_ensures((g_threw != 0) == in_throws)
__CPROVER_ensures(g_threw == 0 ==> (__CPROVER_return_value == (unsigned)in_val && g_pos == in_pos))
__CPROVER_assigns(g_arg, g_arglen, g_argbase, g_which, g_calls, g_threw, g_pos);

/* complete-literal test used by the type checker for program constants */
_Bool h_can(const char *text, unsigned long len, _Bool is_unsigned)
__CPROVER_requires(text == in_s && len == in_len && len <= VX_LEN && is_unsigned == in_unsigned && g_threw == 0 && g_calls == 0 && in_pos < (1ul << 62))
__CPROVER_requires(is_unsigned || ((long)in_val >= -2147483648l && (long)in_val <= 2147483647l))
__CPROVER_ensures(is_unsigned ==> (__CPROVER_return_value == (!starts("-") && !in_throws && in_val <= 0xFFFFFFFFul && in_pos + (u_strip() ? 2ul : 0ul) == in_len)))
__CPROVER_ensures(!is_unsigned ==> (__CPROVER_return_value == (!in_throws && in_pos + (s_base() == 2 ? 2ul : 0ul) == in_len)))
__CPROVER_ensures(g_threw == 0)
__CPROVER_assigns(g_arg, g_arglen, g_argbase, g_which, g_calls, g_threw, g_pos);

#ifdef VX_CANARY
#define CANARY __CPROVER_assert(0, "canary: reachable after the call under contract")
#else
#define CANARY
#endif
static void inputs(void) {
    for (int i = 0; i < VX_LEN + 1; i++) in_s[i] = nondet_char();
    in_len = nondet_ulong(); __CPROVER_assume(in_len <= VX_LEN);
    for (int i = 0; i < VX_LEN; i++) __CPROVER_assume(i >= (int)in_len || in_s[i] != 0);
    in_base = nondet_int(); in_pos_null = nondet_bool(); in_unsigned = nondet_bool();
    in_val = nondet_ulong(); in_pos = nondet_ulong(); in_throws = nondet_bool();
    g_threw = 0; g_calls = 0;
}
void harness_u(void) { inputs(); h_ufs(in_s, in_len, in_pos_null ? NULL : &g_pos, in_base); CANARY; }
void harness_s(void) { inputs(); h_sfs(in_s, in_len, in_pos_null ? NULL : &g_pos, in_base); CANARY; }
void harness_rru(void) { inputs(); __CPROVER_assume(in_len >= 1); h_rru(in_s, in_len, &g_pos); CANARY; }
void harness_can(void) { inputs(); in_base = 0; if (!in_unsigned) __CPROVER_assume(s_base() != 2 || starts("0b") || starts("-0b")); h_can(in_s, in_len, in_unsigned); CANARY; }
