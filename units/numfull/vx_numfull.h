#ifndef VX_NUMFULL_H
#define VX_NUMFULL_H
#include <vx_bstring.h>
#include <vx_limits.h>
extern "C" {
void vx_throw(void);
bool vx_threw_get(void);
// the std parser, assumed: told which text/base it is given, answers value / position / throws
unsigned long vx_ext_parse(int which, const char* text, unsigned long len, int base, int* throws, unsigned long* pos);
}
#define VX_STO(name, T, which)                                                       \
    inline T name(const std::string& s, std::size_t* pos = 0, int base = 10) {       \
        int t = 0; unsigned long p = 0;                                              \
        unsigned long v = vx_ext_parse(which, s.d, s.n, base, &t, &p);               \
        if (t) { vx_throw(); return 0; }                                             \
        if (pos) *pos = p;                                                           \
        return (T)v;                                                                 \
    }
VX_STO(vx_stoi, int, 1)
VX_STO(vx_stol, long, 2)
VX_STO(vx_stoll, long long, 3)
VX_STO(vx_stoul, unsigned long, 4)
VX_STO(vx_stoull, unsigned long long, 5)
extern "C" unsigned vx_ext_ufs_rec(const char* text, unsigned long len, int base, int* throws, unsigned long* pos);
namespace souffle {
inline unsigned vx_ufs_rec(const std::string& s, std::size_t* pos = 0, int base = 10) {
    int t = 0; unsigned long p = 0;
    unsigned v = vx_ext_ufs_rec(s.d, s.n, base, &t, &p);
    if (t) { vx_throw(); return 0; }
    if (pos) *pos = p;
    return v;
}
}
namespace souffle { inline bool isPrefix(const std::string& prefix, const std::string& element); }
#endif
