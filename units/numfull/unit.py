"""C18 (bounded): the WHOLE bodies of RamUnsignedFromString / RamSignedFromString / isPrefix / canBeParsedAsRam{Unsigned,Signed}
(StringUtil.h) on every string of at most VX_LEN characters: sign rejection, base-0 prefix dispatch, 0b stripping, which text and
base reach std::stoul/stoi, position adjustment, completeness test."""
import os
import re
from vxlib.extract import Source, strip_comments, ExtractError, blank
from vxlib import ramtypes
from vxlib.cbmc import Harness

HERE = os.path.dirname(os.path.abspath(__file__))
SU = 'src/include/souffle/utility/StringUtil.h'


def extract(ctx):
    ramtypes.extract(ctx)
    log = {}
    su = Source(os.path.join(ctx.repo, SU))
    fns = []
    for rx in (r'inline\s+bool\s+isPrefix\s*\(\s*const\s+std::string&\s*prefix\s*,\s*const\s+std::string&\s*element\s*\)\s*\{',
               r'inline\s+RamSigned\s+RamSignedFromString\s*\([^)]*\)\s*\{', r'inline\s+RamUnsigned\s+RamUnsignedFromString\s*\([^)]*\)\s*\{',
               r'inline\s+bool\s+canBeParsedAsRamSigned\s*\([^)]*\)\s*\{', r'inline\s+bool\s+canBeParsedAsRamUnsigned\s*\([^)]*\)\s*\{'):
        t, _ = su.block(rx, semi=False)
        fns.append(strip_comments(t))
    text = '\n'.join(fns)
    text, n8 = re.subn(r'std::(sto[a-z]+)\(', r'vx_\1(', text)
    text, n6 = re.subn(r'std::numeric_limits<\s*(\w+)\s*>::(min|max|lowest)\(\)', r'vx_limits_\2((\1)0)', text)
    # R13: a throw ends the function with the flag set; callers test the flag (see R13b)
    text, n13 = re.subn(r'\bthrow\s+[^;]*;', '{ vx_throw(); return 0; }', text)
    # R12: `const T& x = c ? a : b;` on class lvalues (symex crash) -> pointer selection, same object either way
    text, n12 = re.subn(r'const\s+std::string\s*&\s*(\w+)\s*=\s*(\w+)\s*\?\s*(\w+)\s*:\s*(\w+)\s*;',
                        r'const std::string* vx_tmp_p = &\4; if (\2) vx_tmp_p = &\3; const std::string& \1 = *vx_tmp_p;', text)
    # R13b: try { CALL; } catch (...) { return false; }  ->  CALL; if (vx_threw()) return false;   (exceptions are carried by the flag)
    text, n13b = re.subn(r'try\s*\{\s*([^{}]*?;)\s*\}\s*catch\s*\(\.\.\.\)\s*\{\s*return\s+false;\s*\}', r'\1 if (vx_threw_get()) return false;', text)
    # CBMC does not resolve the free operator+(const char*, const std::string&): spelled as a plain call of the same function
    text, n21 = re.subn(r'("[^"]*")\s*\+\s*(\w+\.substr\([^)]*\))', r'std::vx_concat(\1, \2)', text)
    log['R21 "lit" + s.substr(..) -> vx_concat(..)'] = n21
    # auto iterators of the scaffold string are const char*
    text, n2 = re.subn(r'\bauto\s+(\w+)\s*=\s*(\w+)\.begin\(\)', r'const char* \1 = \2.begin()', text)
    log.update({'R8 std::sto* -> vx_sto*': n8, 'R6 numeric_limits': n6, 'R13 throw -> flag': n13, 'R12 ?: on class lvalues -> pointer selection': n12,
                'R13b try/catch(...) -> flag test': n13b, 'R2 auto iterator -> const char* (scaffold string)': n2})
    if n12 != 2 or n13b != 2 or n8 < 2 or n2 != 2:
        raise ExtractError('numfull: a must-fire rewrite did not fire as expected: %r' % log)
    # ReadStreamCSV::readRamUnsigned (whole body) with its callee replaced by a recording stub: WHAT it hands to RamUnsignedFromString
    csv = Source(os.path.join(ctx.repo, 'src/include/souffle/io/ReadStreamCSV.h'))
    csv_rb, _ = csv.block(r'RamUnsigned\s+readRamUnsigned\s*\(\s*const\s+std::string&\s*element\s*,\s*std::size_t&\s*charactersRead\s*\)\s*\{', semi=False)
    rb = strip_comments(csv_rb)
    rb, nr = re.subn(r'\bRamUnsignedFromString\(', 'vx_ufs_rec(', rb)
    log['R8 readRamUnsigned: RamUnsignedFromString( -> vx_ufs_rec( (recording stub; the callee has its own contract)'] = nr
    if nr < 1:
        raise ExtractError('readRamUnsigned: no call of RamUnsignedFromString')
    ctx.fact("ReadStreamCSV.h: a signed column is read by RamSignedFromString(element, &charactersRead) (base 10), an unsigned one by readRamUnsigned",
             csv.has_raw(r"case\s+'i':\s*\{\s*tuple\[inputMap\[column\]\]\s*=\s*RamSignedFromString\(element,\s*&charactersRead\);") and
             csv.has_raw(r"case\s+'u':\s*\{\s*tuple\[inputMap\[column\]\]\s*=\s*ramBitCast\(readRamUnsigned\(element,\s*charactersRead\)\);"))
    text = text + '\nstruct CSVScaffold {\n' + rb + '\n};\n'
    # forward declaration of isPrefix precedes its uses in the real header as well
    ctx.write('extracted.hpp', '#include <vx_bstring.h>\n#include <stdexcept>\n#include <cassert>\n#include "ramtypes.hpp"\n#include "vx_numfull.h"\nnamespace souffle {\n' + text + '\n}\n')
    ctx.rewrites.update(log)
    ctx.dropped += ['RamFloatFromString (numparse.fstr covers it), the other StringUtil.h helpers; std::stoul/stoi themselves (assumed contracts)']


def harnesses(ctx):
    cpp = os.path.join(HERE, 'wrappers.cpp')
    c = [os.path.join(HERE, 'contracts.c')]
    ln = 5 if ctx.tier == 'quick' else 7
    d = ['VX_LEN=%d' % ln, 'VX_CAP=%d' % (ln + 4)]
    B = {'string_length': ln, 'note': 'all byte values except NUL'}
    return [
        Harness('numfull.unsigned', 'harness_u', cpp=cpp, c=c, defines=d, enforce='h_ufs', unwind=ln + 6, bounded=B, must_have=['postcondition'], timeout=1500,
                clause='RamUnsignedFromString on any string: "-..." rejected without parsing; base-0 dispatch by prefix; "0b" stripped exactly for base 2; one call of std::stoul with that text and base; '
                       'range rule and position (+2 for a stripped prefix) as in the tail contract', funcs=['souffle::RamUnsignedFromString', 'souffle::isPrefix']),
        Harness('numfull.signed', 'harness_s', cpp=cpp, c=c, defines=d, enforce='h_sfs', unwind=ln + 6, bounded=B, must_have=['postcondition'], timeout=1500,
                clause='RamSignedFromString on any string: base-0 dispatch incl. negative prefixes; "0b"/"-0b" rewritten to a plain/negated binary literal; one call of std::stoi with that text and base; value and position kept',
                funcs=['souffle::RamSignedFromString', 'souffle::isPrefix']),
        Harness('numfull.readRamUnsigned', 'harness_rru', cpp=cpp, c=c, defines=d, enforce='h_rru', unwind=ln + 6, bounded=B, must_have=['postcondition'], timeout=1500,
                clause='ReadStreamCSV::readRamUnsigned hands the ENTIRE field to RamUnsignedFromString exactly once (so that sign / prefix / trailing-garbage rules apply to the field), '
                       'with base 2/16/10 by prefix, returns its value unchanged and reports its character count unchanged', funcs=['souffle::ReadStreamCSV::readRamUnsigned']),
        Harness('numfull.canparse', 'harness_can', cpp=cpp, c=c, defines=d, enforce='h_can', unwind=ln + 6, bounded=B, must_have=['postcondition'], timeout=1500,
                clause='canBeParsedAsRamUnsigned/Signed: true iff the literal is accepted AND every character was consumed (complete literal)',
                funcs=['souffle::canBeParsedAsRamUnsigned', 'souffle::canBeParsedAsRamSigned']),
    ]


ASSUMPTIONS = [
    'BOUNDED: strings of at most VX_LEN characters (5 quick, 7 thorough); not a proof for longer literals',
    'assumed contracts of std::stoul / std::stoi (value of the longest valid prefix of the text it is given, position, or throw) — which text and base they are given IS verified',
    'exceptions are carried by a flag (R13/R13b): `throw` sets it and returns, `try {..} catch (...) { return false; }` tests it',
]
TRUSTED = ['stubs/vx_bstring.h (bounded string)', 'units/numfull/vx_numfull.h', 'rewrite rules R2,R6,R8,R12,R13,R13b']

MUTANTS = [
    dict(name='readRamUnsigned narrows via short', file='src/include/souffle/io/ReadStreamCSV.h', find=r'RamSigned value = 0;', repl='short value = 0;', expect=r'numfull\.readRamUnsigned'),
    dict(name='readRamUnsigned strips the prefix itself', file='src/include/souffle/io/ReadStreamCSV.h', find=r'value = RamUnsignedFromString\(element, &charactersRead, 16\);', repl='value = RamUnsignedFromString(element.substr(2), &charactersRead, 16); charactersRead += 2;', expect=r'numfull\.readRamUnsigned'),
    dict(name='unsigned: minus sign accepted', file=SU, find=r'if \(isPrefix\("-", str\)\) \{\s*throw std::invalid_argument\("Unsigned number can.t start with minus\."\);\s*\}', repl='', expect=r'numfull\.unsigned'),
    dict(name='unsigned: 0x dispatched to base 10', file=SU, find=r'(\} else if \(isPrefix\("0x", str\)\) \{\s*return RamUnsignedFromString\(str, position, )16', repl=r'\g<1>10', expect=r'numfull\.(unsigned|canparse)'),
    dict(name='signed: -0b strips 2 characters', file=SU, find=r'binaryNumber = "-" \+ str\.substr\(3\);', repl='binaryNumber = "-" + str.substr(2);', expect=r'numfull\.signed'),
    dict(name='isPrefix: stops one early', file=SU, find=r'return itPrefix == prefix\.end\(\);', repl='return itPrefix + 1 >= prefix.end();', expect=r'numfull\.'),
    dict(name='canBeParsedAsRamUnsigned ignores trailing garbage', file=SU, find=r'(RamUnsignedFromString\(string, &charactersRead, 0\);.*?)return charactersRead == string\.size\(\);', repl=r'\1return true;', expect=r'numfull\.canparse'),
]


def replay(ctx, h, r, ins, tr):
    """exploration replay on the real fact loader: every field up to 5 characters over a small alphabet of digits, prefixes, signs and blanks"""
    import subprocess
    exe = os.path.join(ctx.work, 'replay_numfull')
    p = subprocess.run(['g++', '-std=c++17', '-O1', '-fopenmp', '-I', os.path.join(ctx.repo, 'src/include'), os.path.join(HERE, '..', '..', 'replay', 'numfull', 'explore.cpp'), '-o', exe],
                       stdout=subprocess.PIPE, stderr=subprocess.STDOUT)
    if p.returncode != 0:
        return None, 'native replay build failed: ' + p.stdout.decode()[-400:]
    q = subprocess.run([exe], stdout=subprocess.PIPE, stderr=subprocess.STDOUT, cwd=ctx.work)
    return q.returncode == 1, 'real ReadStreamCSV on every short field: ' + q.stdout.decode().strip()[-300:]
