#include "extracted.hpp"
using namespace souffle;
static std::string mk(const char* text, unsigned long len) { std::string s; for (unsigned long i = 0; i < len; i = i + 1) s.push_back(text[i]); return s; }
extern "C" {
unsigned h_ufs(const char* text, unsigned long len, unsigned long* position, int base) { std::string s = mk(text, len); return RamUnsignedFromString(s, (std::size_t*)position, base); }
int h_sfs(const char* text, unsigned long len, unsigned long* position, int base) { std::string s = mk(text, len); return RamSignedFromString(s, (std::size_t*)position, base); }
unsigned h_rru(const char* text, unsigned long len, unsigned long* charactersRead) { std::string s = mk(text, len); CSVScaffold c; return c.readRamUnsigned(s, *(std::size_t*)charactersRead); }
bool h_can(const char* text, unsigned long len, bool is_unsigned) { std::string s = mk(text, len); return is_unsigned ? canBeParsedAsRamUnsigned(s) : canBeParsedAsRamSigned(s); }
}
