"""C08 unit: eqrel look-ups with bound columns — EquivalenceRelation::lower_bound (interpreter path) and
getBoundaries<levels> (compiled path), against "bound column = any 32-bit value"."""
import os
import re
import subprocess
from vxlib.extract import Source, strip_comments, ExtractError
from vxlib import ramtypes
from vxlib.cbmc import Harness

HERE = os.path.dirname(os.path.abspath(__file__))
ER = 'src/include/souffle/datastructure/EquivalenceRelation.h'
GEN = 'src/interpreter/Generator.cpp'
IDX = 'src/interpreter/Index.h'


def extract(ctx):
    ramtypes.extract(ctx)
    log = {}
    src = Source(os.path.join(ctx.repo, ER))
    lb, _ = src.block(r'iterator\s+lower_bound\s*\(\s*const\s+TupleType&\s*entry\s*,\s*operation_hints&\s*\)\s*const\s*\{', semi=False)
    gb, _ = src.block(r'template\s*<\s*unsigned\s+levels\s*>\s*range<iterator>\s+getBoundaries\s*\(\s*const\s+TupleType&\s*entry\s*,\s*operation_hints&\s*\)\s*const\s*\{', semi=False)
    gb = strip_comments(gb)
    m = re.match(r'template\s*<\s*unsigned\s+levels\s*>\s*', gb)
    body = gb[m.end():]
    insts = []
    for n in (0, 1, 2):
        t = re.sub(r'\bgetBoundaries\b', 'getBoundaries_%d' % n, body, count=1)
        t, k = re.subn(r'\blevels\b', str(n), t)
        if k == 0:
            raise ExtractError('R14: `levels` does not occur in getBoundaries')
        insts.append(t)
    log['R14 textual instantiation of template<unsigned levels> getBoundaries at 0,1,2'] = 3
    # compiled path wrappers of EqRel.h: t_eqrel::lowerUpperRange_10/_01/_11 (the 3-argument forms) and reorder
    er = Source(os.path.join(ctx.repo, 'src/include/souffle/datastructure/EqRel.h'))
    wr = []
    for nm, it in (('10', 'iterator'), ('01', 'iterator_1'), ('11', 'iterator')):
        t, _ = er.block(r'range<%s>\s+lowerUpperRange_%s\s*\(\s*const\s+t_tuple&\s*lower\s*,\s*const\s+t_tuple&\s*,\s*context&\s*h\s*\)\s*const\s*\{' % (it, nm), semi=False)
        wr.append(strip_comments(t))
    ro, _ = er.block(r'static\s+t_tuple\s+reorder\s*\(\s*const\s+t_tuple&\s*t\s*\)\s*\{', semi=False)
    wtext = '\n'.join(wr) + '\n' + strip_comments(ro)
    wtext, n14 = re.subn(r'ind\.template\s+getBoundaries<\s*(\d)\s*>\(', r'ind.getBoundaries_\1(', wtext)
    wtext, n2 = re.subn(r'\bauto\s+(\w+)\s*=\s*ind\.', r'range<vx_iter> \1 = ind.', wtext)
    log['R14 ind.template getBoundaries<k>( -> ind.getBoundaries_k('] = n14
    log['R2 auto r -> range<vx_iter> (the scaffold range type)'] = n2
    if n14 != 3 or n2 != 3:
        raise ExtractError('EqRel.h wrappers: expected three getBoundaries calls')
    # the iterator factories the look-ups go through: real bodies (they decide WHEN the per-class list cache is regenerated and read)
    facs = []
    for nm, rx in (('begin', r'iterator\s+begin\s*\(\s*\)\s*const\s*\{'), ('anteriorIt', r'iterator\s+anteriorIt\s*\(\s*value_type\s+\w+\s*\)\s*const\s*\{'),
                   ('antpostit', r'iterator\s+antpostit\s*\(\s*value_type\s+\w+\s*,\s*value_type\s+\w+\s*\)\s*const\s*\{')):
        t, _ = src.block(rx, semi=False)
        facs.append(strip_comments(t))
    ftext = '\n'.join(facs)
    ftext, nf = re.subn(r'equivalencePartition\.find\(\s*\{\s*(sds\.findNode\(\w+\))\s*,\s*nullptr\s*\}\s*\)', r'equivalencePartition.vx_find(\1)', ftext)
    log['R8 equivalencePartition.find({rep, nullptr}) -> equivalencePartition.vx_find(rep) (scaffold cache: reading it asserts that it has been regenerated)'] = nf
    ftext, na = re.subn(r'\bauto\s+(\w+)\s*=\s*equivalencePartition\.', r'vx_piter \1 = equivalencePartition.', ftext)
    log['R2 auto found -> vx_piter (scaffold cache iterator)'] = na
    ftext, ns = re.subn(r'\s*&&\s*"[^"]*"\s*\)', ')', ftext)
    log['R5 message strings in assert(c && "...") dropped'] = ns
    ctx.fact('EquivalenceRelation.h: genAllDisjointSetLists() clears statesMapStale after rebuilding equivalencePartition; insert/insertAll/extendAndInsert set it',
             src.has(r'statesMapStale\.store\(false') and src.has(r'statesMapStale\.store\(true'))
    text = ('#include "ramtypes.hpp"\n#include "vx_eqrel.h"\nnamespace souffle {\nstruct EqrelScaffold : public vx_eqrel_base {\n' + ftext + '\n'
            + strip_comments(lb) + '\n' + '\n'.join(insts) + '\n};\n'
            'struct t_eqrel_scaffold : public vx_t_eqrel_base {\n    EqrelScaffold ind;\n' + wtext + '\n};\n}\n')
    ctx.write('extracted.hpp', text)
    ctx.rewrites.update(log)
    # static facts about the caller's encoding of unbound columns (interpreter)
    gen = Source(os.path.join(ctx.repo, GEN))
    ctx.fact('Generator.cpp: an unbound lower column is encoded as MIN_RAM_SIGNED',
             gen.has(r'isUndefValue\(low\)\)\s*\{\s*indexOperation\.first\[i\]\s*=\s*MIN_RAM_SIGNED;'))
    ctx.fact('Generator.cpp: an unbound upper column is encoded as MAX_RAM_SIGNED',
             gen.has(r'isUndefValue\(hig\)\)\s*\{\s*indexOperation\.second\[i\]\s*=\s*MAX_RAM_SIGNED;'))
    idx = Source(os.path.join(ctx.repo, IDX))
    ctx.fact('Index.h: range(low, high) passes `low` unchanged to data.lower_bound',
             idx.has(r'return\s*\{\s*data\.lower_bound\(low,\s*hints\)\s*,\s*data\.upper_bound\(high,\s*hints\)\s*\}'))
    ctx.dropped += ['everything of EquivalenceRelation except lower_bound(entry, hints) and getBoundaries<levels>(entry, hints): iterators, '
                    'the iterator class (abstracted to a ghost range descriptor) and the rebuilding of the per-class list cache (abstracted to a ghost freshness flag), the union-find (see C28/C29)',
                    'btree/brie/default representation transparency (whole-program equivalence): not contract-expressible']


def harnesses(ctx):
    cpp = os.path.join(HERE, 'wrappers.cpp')
    c = [os.path.join(HERE, 'contracts.c')]
    hs = [Harness('eqrel.lower_bound', 'harness_lower_bound', cpp=cpp, c=c, enforce='h_lower_bound', must_have=['postcondition'],
                  clause='interpreter look-up: for every bound mask and EVERY 32-bit bound value the range returned is the one for that mask/value',
                  funcs=['souffle::EquivalenceRelation::lower_bound(const TupleType&, operation_hints&)'])]
    for n in (0, 1, 2):
        hs.append(Harness('eqrel.getBoundaries_%d' % n, 'harness_gb%d' % n, cpp=cpp, c=c, enforce='h_getBoundaries_%d' % n, must_have=['postcondition'],
                          clause='compiled look-up with %d bound columns: range for every 32-bit value' % n,
                          funcs=['souffle::EquivalenceRelation::getBoundaries<%d>(const TupleType&, operation_hints&)' % n]))
    for nm, what in (('10', 'first column bound'), ('01', 'second column bound (reordered look-up: by symmetry the pairs (_,v) are the pairs (v,_) swapped)'), ('11', 'both columns bound')):
        hs.append(Harness('eqrel.range_%s' % nm, 'harness_range_%s' % nm, cpp=cpp, c=c, enforce='h_range_%s' % nm, must_have=['postcondition'],
                          clause='compiled look-up wrapper t_eqrel::lowerUpperRange_%s, %s: range for every 32-bit value' % (nm, what),
                          funcs=['souffle::t_eqrel::lowerUpperRange_%s' % nm, 'souffle::t_eqrel::reorder']))
    return hs


def replay(ctx, h, r, ins, tr):
    if h.name.startswith('eqrel.range_'):
        return None, 'no native replay for the t_eqrel wrappers (generated-code interface)'
    last = (tr or {}).get('last', {})
    compiled = h.name != 'eqrel.lower_bound'
    try:
        if compiled:
            k = int(h.name[-1])
            last = dict(last, in_b0='1' if k >= 1 else '0', in_b1='1' if k >= 2 else '0')
        b0 = 1 if str(last.get('in_b0')).upper().startswith('T') or str(last.get('in_b0')) == '1' else 0
        b1 = 1 if str(last.get('in_b1')).upper().startswith('T') or str(last.get('in_b1')) == '1' else 0
        v0, v1 = int(last.get('in_v0')), int(last.get('in_v1'))
    except Exception as e:
        return None, 'no inputs in trace: %r' % (e,)
    exe = os.path.join(ctx.work, 'replay_eqrel')
    p = subprocess.run(['g++', '-std=c++17', '-fopenmp', '-I', os.path.join(ctx.repo, 'src/include'),
                        os.path.join(HERE, '..', '..', 'replay', 'eqrel', 'replay.cpp'), '-o', exe], stdout=subprocess.PIPE, stderr=subprocess.STDOUT)
    if p.returncode != 0:
        return None, 'native replay build failed: ' + p.stdout.decode()[:400]
    q = subprocess.run([exe, str(b0), str(b1), str(v0), str(v1), '1' if compiled else '0'], stdout=subprocess.PIPE, stderr=subprocess.STDOUT)
    return q.returncode == 1, 'real EquivalenceRelation::%s, mask=%d%d v0=%d v1=%d: %s' % ('getBoundaries<k>' if compiled else 'lower_bound', b0, b1, v0, v1, q.stdout.decode().strip())


ASSUMPTIONS = [
    'iterators constructed by begin()/end()/anteriorIt(x)/antpostit(x,y) denote the ranges ALL / empty / {(x,_)} / {(x,y)} (ghost range descriptor; iteration itself is not verified); the per-class list cache is a ghost flag: stale at entry (nondeterministic), fresh after genAllDisjointSetLists(), and it must be fresh whenever it is read',
    'sds.sameSet(a,b) agrees with sds.contains(a,b) on the values the look-ups pass (both uninterpreted)',
    'sds.nodeExists / sds.contains are deterministic functions of their arguments (uninterpreted)',
    'the interpreter encodes an unbound column as MIN_RAM_SIGNED in the lower bound (static fact on Generator.cpp, re-checked every run)',
    'RAM_DOMAIN_SIZE == 32',
]
TRUSTED = ['units/eqrel/vx_eqrel.h (scaffold: range descriptor, sds stubs)', 'rewrite rule R14 (textual instantiation of the non-type template parameter)']

ER2 = 'src/include/souffle/datastructure/EqRel.h'
MUTANTS = [
    dict(name='lowerUpperRange_01 forgets to reorder the key', file=ER2, find=r'getBoundaries<1>\(reorder\(lower\), h\.hints\)', repl='getBoundaries<1>((lower), h.hints)', expect=r'eqrel\.range_01'),
    dict(name='lowerUpperRange_01 yields unswapped tuples', file=ER2, find=r'(range<iterator_1> lowerUpperRange_01\(const t_tuple& lower, const t_tuple& /\*upper\*/, context& h\) const \{.*?)return make_range\(iterator_1\(r\.begin\(\)\), iterator_1\(r\.end\(\)\)\);', repl=r'\1return make_range(iterator_1(r.begin()), iterator_1(r.begin()));', expect=r'eqrel\.range_01'),
    # (a mutant of reorder()'s second component is equivalent here: the one-column look-up reads component 0 only)
    dict(name='getBoundaries<1> skips existence test', file=ER, find=r'if \(!sds\.nodeExists\(entry\[0\]\)\) return make_range\(end\(\), end\(\)\);', repl='', expect=r'eqrel\.getBoundaries_1 :: .*postcondition'),
    dict(name='getBoundaries<2> uses anteriorIt', file=ER, find=r'return make_range\(antpostit\(entry\[0\], entry\[1\]\), end\(\)\);', repl='return make_range(anteriorIt(entry[0]), end());', expect=r'eqrel\.getBoundaries_2 :: .*postcondition'),
    dict(name='lower_bound 11 swaps arguments', file=ER, find=r'return antpostit\(entry\[0\], entry\[1\]\);', repl='return antpostit(entry[1], entry[0]);', expect=r'eqrel\.lower_bound :: .*postcondition'),
    dict(name='lower_bound treats 0 as unbound too', file=ER, find=r'if \(entry\[0\] != MIN_RAM_SIGNED && entry\[1\] == MIN_RAM_SIGNED\) \{', repl='if (entry[0] != MIN_RAM_SIGNED && (entry[1] == MIN_RAM_SIGNED || entry[1] == 0)) {', expect=r'VIOLATION property=C08'),
]
