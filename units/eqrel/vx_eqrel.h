// Scaffold for the extracted EquivalenceRelation look-up functions (TRUSTED): iterators are abstracted to a ghost range
// descriptor, the union-find membership tests to uninterpreted functions.
#ifndef VX_EQREL_H
#define VX_EQREL_H
#include "ramtypes.hpp"
#include <cassert>
extern "C" {
bool vx_nodeExists(int v);
bool vx_contains(int a, int b);
unsigned long vx_findNode(int v);
void vx_regen(void);            // genAllDisjointSetLists(): the per-class list cache is rebuilt if stale
bool vx_cache_read(void);       // a read of the cache: asserts that it is fresh; returns whether the class was found
void vx_cache_iter(void);       // an iterator over the class lists is created: asserts that the cache is fresh
}
struct vx_ostream {
    vx_ostream& operator<<(const char*) { return *this; }
};
namespace std { static vx_ostream cerr; }
namespace souffle {
enum { VX_ALL = 0, VX_END = 1, VX_ANT = 2, VX_ANTPOST = 3 };
typedef int StatesBucket;
struct vx_iter {
    int kind; RamDomain a; RamDomain b;
    vx_iter() {}
    vx_iter(const void*) : kind(VX_ALL), a(0), b(0) { vx_cache_iter(); }                                   // iterator(this): all pairs
    vx_iter(const void*, bool) : kind(VX_END), a(0), b(0) {}                                                // iterator(this, true): end
    vx_iter(const void*, RamDomain x, StatesBucket) : kind(VX_ANT), a(x), b(0) { vx_cache_iter(); }         // pairs (x, _)
    vx_iter(const void*, RamDomain x, RamDomain y, StatesBucket) : kind(VX_ANTPOST), a(x), b(y) { vx_cache_iter(); }   // the pair (x, y)
};
struct vx_pentry { unsigned long first; StatesBucket second; };
struct vx_piter {
    bool valid;
    vx_pentry operator*() const { vx_pentry e; e.first = 0; e.second = 0; return e; }
    bool operator!=(const vx_piter& o) const { return valid != o.valid; }
    bool operator==(const vx_piter& o) const { return valid == o.valid; }
};
struct vx_partition {
    vx_piter vx_find(unsigned long) const { vx_piter i; i.valid = vx_cache_read(); return i; }
    vx_piter end() const { vx_piter i; i.valid = false; return i; }
};
template <typename I> struct range { I b; I e; I begin() const { return b; } I end() const { return e; } };
template <typename I> range<I> make_range(const I& b, const I& e) { range<I> r; r.b = b; r.e = e; return r; }
struct vx_tuple2 {
    RamDomain d[2];
    RamDomain operator[](int i) const { return d[i]; }
    RamDomain& operator[](int i) { return *(d + i); }
};
struct vx_sds {
    bool nodeExists(RamDomain v) const { return vx_nodeExists(v); }
    bool contains(RamDomain a, RamDomain b) const { return vx_contains(a, b); }
    bool sameSet(RamDomain a, RamDomain b) const { return vx_contains(a, b); }
    unsigned long findNode(RamDomain v) const { return vx_findNode(v); }
};
struct vx_eqrel_base {
    typedef vx_iter iterator;
    typedef int operation_hints;
    typedef vx_tuple2 TupleType;
    typedef RamDomain value_type;
    vx_sds sds;
    vx_partition equivalencePartition;
    void genAllDisjointSetLists() const { vx_regen(); }
    iterator end() const { return iterator(this, true); }
};
struct EqrelScaffold;
typedef EqrelScaffold EquivalenceRelation;
// scaffold for t_eqrel's nested types: iterator_0 forwards, iterator_1 yields the tuples with their columns swapped
struct vx_t_eqrel_base {
    typedef vx_tuple2 t_tuple;
    struct context { int hints; };
    struct iterator { vx_iter n; int swapped; iterator() {} iterator(const vx_iter& i) : n(i), swapped(0) {} };
    struct iterator_1 { vx_iter n; int swapped; iterator_1() {} iterator_1(const vx_iter& i) : n(i), swapped(1) {} };
};
}
#endif
