// Scaffold for the extracted EquivalenceRelation look-up functions (TRUSTED): iterators are abstracted to a ghost range
// descriptor, the union-find membership tests to uninterpreted functions.
#ifndef VX_EQREL_H
#define VX_EQREL_H
#include "ramtypes.hpp"
extern "C" {
bool vx_nodeExists(int v);
bool vx_contains(int a, int b);
}
struct vx_ostream {
    vx_ostream& operator<<(const char*) { return *this; }
};
namespace std { static vx_ostream cerr; }
namespace souffle {
enum { VX_ALL = 0, VX_END = 1, VX_ANT = 2, VX_ANTPOST = 3 };
struct vx_iter { int kind; RamDomain a; RamDomain b; };
template <typename I> struct range { I b; I e; I begin() const { return b; } I end() const { return e; } };
template <typename I> range<I> make_range(const I& b, const I& e) { range<I> r; r.b = b; r.e = e; return r; }
struct vx_tuple2 {
    RamDomain d[2];
    RamDomain operator[](int i) const { return d[i]; }
    RamDomain& operator[](int i) { return *(d + i); }
};
struct vx_sds {
    bool nodeExists(RamDomain v) const { return vx_nodeExists(v); }
    bool contains(RamDomain a, RamDomain b) const { return vx_contains(a, b); }
};
struct vx_eqrel_base {
    typedef vx_iter iterator;
    typedef int operation_hints;
    typedef vx_tuple2 TupleType;
    typedef RamDomain value_type;
    vx_sds sds;
    iterator begin() const { vx_iter i; i.kind = VX_ALL; i.a = 0; i.b = 0; return i; }
    iterator end() const { vx_iter i; i.kind = VX_END; i.a = 0; i.b = 0; return i; }
    iterator anteriorIt(value_type x) const { vx_iter i; i.kind = VX_ANT; i.a = x; i.b = 0; return i; }
    iterator antpostit(value_type x, value_type y) const { vx_iter i; i.kind = VX_ANTPOST; i.a = x; i.b = y; return i; }
};
// scaffold for t_eqrel's nested types: iterator_0 forwards, iterator_1 yields the tuples with their columns swapped
struct vx_t_eqrel_base {
    typedef vx_tuple2 t_tuple;
    struct context { int hints; };
    struct iterator { vx_iter n; int swapped; iterator() {} iterator(const vx_iter& i) : n(i), swapped(0) {} };
    struct iterator_1 { vx_iter n; int swapped; iterator_1() {} iterator_1(const vx_iter& i) : n(i), swapped(1) {} };
};
}
#endif
