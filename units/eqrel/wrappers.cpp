#include "extracted.hpp"
using namespace souffle;
extern "C" {
struct vx_res { int kind; int a; int b; int ekind; };
void h_lower_bound(int e0, int e1, void* out_) { vx_res* out = (vx_res*)out_;
    EqrelScaffold s; vx_tuple2 t; t.d[0] = e0; t.d[1] = e1; int hints = 0;
    vx_iter i = s.lower_bound(t, hints);
    out->kind = i.kind; out->a = i.a; out->b = i.b; out->ekind = VX_END;
}
#define GB(N) void h_getBoundaries_##N(int e0, int e1, void* out_) { vx_res* out = (vx_res*)out_;              \
    EqrelScaffold s; vx_tuple2 t; t.d[0] = e0; t.d[1] = e1; int hints = 0;          \
    range<vx_iter> r = s.getBoundaries_##N(t, hints);                               \
    out->kind = r.b.kind; out->a = r.b.a; out->b = r.b.b; out->ekind = r.e.kind; }
GB(0) GB(1) GB(2)
#define RG(N, IT) void h_range_##N(int e0, int e1, void* out_) { vx_res* out = (vx_res*)out_;                  \
    t_eqrel_scaffold s; vx_tuple2 lo; lo.d[0] = e0; lo.d[1] = e1; vx_tuple2 hi = lo; vx_t_eqrel_base::context h; h.hints = 0;  \
    range<vx_t_eqrel_base::IT> r = s.lowerUpperRange_##N(lo, hi, h);                                           \
    out->kind = r.b.n.kind; out->a = r.b.n.a; out->b = r.b.n.b; out->ekind = r.e.n.kind + 16 * r.b.swapped; }
RG(10, iterator) RG(01, iterator_1) RG(11, iterator)
}
