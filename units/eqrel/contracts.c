/* C08 — eqrel look-ups: "looked up with either column bound to ANY value".
 * Range descriptor: ALL (every pair), END (empty), ANT(a) = {(a,_)}, ANTPOST(a,b) = {(a,b)}. */
#include <stdint.h>
#define MIN_RAM_SIGNED (-2147483647 - 1)
enum { VX_ALL = 0, VX_END = 1, VX_ANT = 2, VX_ANTPOST = 3 };
struct vx_res { int kind; int a; int b; int ekind; };
_Bool __CPROVER_uninterpreted_nodeExists(int);
_Bool __CPROVER_uninterpreted_contains(int, int);
_Bool vx_nodeExists(int v) { return __CPROVER_uninterpreted_nodeExists(v); }
_Bool vx_contains(int a, int b) { return __CPROVER_uninterpreted_contains(a, b); }

/* ghost: the per-class list cache (equivalencePartition) reflects the union-find.  Stale after every insertion, so a look-up may
   find it in either state; genAllDisjointSetLists() makes it fresh; it may be read, or iterated over, only when fresh. */
_Bool g_fresh;
unsigned long __CPROVER_uninterpreted_findNode(int);
unsigned long vx_findNode(int v) { return __CPROVER_uninterpreted_findNode(v); }
void vx_regen(void) { g_fresh = 1; }
_Bool vx_cache_read(void) { __CPROVER_assert(g_fresh, "cache: equivalencePartition is read only after genAllDisjointSetLists() (a stale cache yields the class as it was before the last insertions)"); return g_fresh; }
void vx_cache_iter(void) { __CPROVER_assert(g_fresh, "cache: an iterator over the class lists is created only from a regenerated cache"); }
_Bool in_b0, in_b1; int in_v0, in_v1;    /* the look-up: which columns are bound, and to which values */
struct vx_res g_out;

/* the range the property demands for (b0,b1,v0,v1) */
static _Bool expected(struct vx_res r, _Bool b0, _Bool b1, int v0, int v1) {
    if (r.ekind != VX_END) return 0;
    if (!b0 && !b1) return r.kind == VX_ALL;
    if (b0 && !b1) return __CPROVER_uninterpreted_nodeExists(v0) ? (r.kind == VX_ANT && r.a == v0) : r.kind == VX_END;
    if (b0 && b1) return __CPROVER_uninterpreted_contains(v0, v1) ? (r.kind == VX_ANTPOST && r.a == v0 && r.b == v1) : r.kind == VX_END;
    return 1;   /* mask 01 is never issued against this index order (column 0 is the index's first column) */
}

/* interpreter: the caller encodes an unbound column as MIN_RAM_SIGNED (Generator.cpp) */
void h_lower_bound(int e0, int e1, void *out)
__CPROVER_requires(out == &g_out && !(in_b1 && !in_b0))
__CPROVER_requires(e0 == (in_b0 ? in_v0 : MIN_RAM_SIGNED) && e1 == (in_b1 ? in_v1 : MIN_RAM_SIGNED))
__CPROVER_ensures(expected(g_out, in_b0, in_b1, in_v0, in_v1))
__CPROVER_assigns(g_out, g_fresh);

/* compiled code: the number of bound columns is the template argument; no sentinel */
void h_getBoundaries_0(int e0, int e1, void *out)
__CPROVER_requires(out == &g_out) __CPROVER_ensures(expected(g_out, 0, 0, e0, e1)) __CPROVER_assigns(g_out, g_fresh);
void h_getBoundaries_1(int e0, int e1, void *out)
__CPROVER_requires(out == &g_out) __CPROVER_ensures(expected(g_out, 1, 0, e0, e1)) __CPROVER_assigns(g_out, g_fresh);
void h_getBoundaries_2(int e0, int e1, void *out)
__CPROVER_requires(out == &g_out) __CPROVER_ensures(expected(g_out, 1, 1, e0, e1)) __CPROVER_assigns(g_out, g_fresh);

/* compiled look-up wrappers (EqRel.h).  ekind carries 16 when the iterator swaps the columns of every tuple it yields */
static _Bool expected_w(struct vx_res r, _Bool swapped, _Bool b0, _Bool b1, int v0, int v1) {
    struct vx_res q = r; if ((r.ekind >= 16) != swapped) return 0; q.ekind = r.ekind & 15;
    return expected(q, b0, b1, v0, v1);
}
void h_range_10(int e0, int e1, void *out) __CPROVER_requires(out == &g_out) __CPROVER_ensures(expected_w(g_out, 0, 1, 0, e0, e1)) __CPROVER_assigns(g_out, g_fresh);
/* second column bound to e1: pairs (e1,_) of the symmetric closure, yielded with swapped columns = pairs (_,e1) */
void h_range_01(int e0, int e1, void *out) __CPROVER_requires(out == &g_out) __CPROVER_ensures(expected_w(g_out, 1, 1, 0, e1, e0)) __CPROVER_assigns(g_out, g_fresh);
void h_range_11(int e0, int e1, void *out) __CPROVER_requires(out == &g_out) __CPROVER_ensures(expected_w(g_out, 0, 1, 1, e0, e1)) __CPROVER_assigns(g_out, g_fresh);

#ifdef VX_CANARY
#define CANARY __CPROVER_assert(0, "canary: reachable after the call under contract")
#else
#define CANARY
#endif
int nondet_int(void); _Bool nondet_bool(void);
#define STALE_OR_FRESH g_fresh = nondet_bool()
void harness_lower_bound(void) {
    STALE_OR_FRESH;
    in_b0 = nondet_bool(); in_b1 = nondet_bool(); in_v0 = nondet_int(); in_v1 = nondet_int();
    __CPROVER_assume(!(in_b1 && !in_b0));
#ifdef VX_KF_C08_MINBOUND   /* known finding: a column bound to MIN_RAM_SIGNED (see known_findings.txt) */
    __CPROVER_assume(!(in_b0 && in_v0 == MIN_RAM_SIGNED) && !(in_b1 && in_v1 == MIN_RAM_SIGNED));
#endif
    h_lower_bound(in_b0 ? in_v0 : MIN_RAM_SIGNED, in_b1 ? in_v1 : MIN_RAM_SIGNED, &g_out); CANARY;
}
void harness_gb0(void) { STALE_OR_FRESH; in_v0 = nondet_int(); in_v1 = nondet_int(); h_getBoundaries_0(in_v0, in_v1, &g_out); CANARY; }
void harness_gb1(void) { STALE_OR_FRESH; in_v0 = nondet_int(); in_v1 = nondet_int(); h_getBoundaries_1(in_v0, in_v1, &g_out); CANARY; }
void harness_gb2(void) { STALE_OR_FRESH; in_v0 = nondet_int(); in_v1 = nondet_int(); h_getBoundaries_2(in_v0, in_v1, &g_out); CANARY; }
void harness_range_10(void) { STALE_OR_FRESH; in_v0 = nondet_int(); in_v1 = nondet_int(); h_range_10(in_v0, in_v1, &g_out); CANARY; }
void harness_range_01(void) { STALE_OR_FRESH; in_v0 = nondet_int(); in_v1 = nondet_int(); h_range_01(in_v0, in_v1, &g_out); CANARY; }
void harness_range_11(void) { STALE_OR_FRESH; in_v0 = nondet_int(); in_v1 = nondet_int(); h_range_11(in_v0, in_v1, &g_out); CANARY; }
