"""C24 unit: intrinsic functors and constraints, numeric fragment.

interpreter : the switch inside CASE(IntrinsicOperator) / CASE(Constraint) of Engine::execute, with its macro block,
              preprocessed (g++ -E) each run; sub-expression evaluation abstracted (R8) to an argument array
synthesiser : the emitter text of visit_(type_identity<IntrinsicOperator>) / visit_(type_identity<Constraint>) is compiled
              NATIVELY each run and executed for every operator; the emitted C++ expression strings become functions
both are proved equal to the specification in optable.py on the operator's defined domain.
"""
import os
import re
import subprocess
import importlib.util

from vxlib.extract import Source, strip_comments, ExtractError, blank, match_brace
from vxlib import ramtypes
from vxlib import rewrite as rw
from vxlib.cbmc import Harness, STUBS

HERE = os.path.dirname(os.path.abspath(__file__))
TABLE_FNS = ['isEqConstraint', 'isStrictIneqConstraint', 'isWeakIneqConstraint', 'isSignedInequalityConstraint', 'convertStrictToWeakIneqConstraint',
             'convertStrictToNotEqualConstraint', 'isLessThan', 'isGreaterThan', 'isLessEqual', 'isGreaterEqual', 'negatedConstraintOp']
ENGINE = 'src/interpreter/Engine.cpp'
SYNTH = 'src/synthesiser/Synthesiser.cpp'
FOPS = 'src/FunctorOps.h'
BCO = 'src/include/souffle/BinaryConstraintOps.h'
EVU = 'src/include/souffle/utility/EvaluatorUtil.h'

_spec = importlib.util.spec_from_file_location('optable', os.path.join(HERE, 'optable.py'))
T = importlib.util.module_from_spec(_spec)
_spec.loader.exec_module(T)


# ------------------------------------------------------------------------------------------------ helpers
def split_cases(switch_body, enum):
    """switch_body: text inside `switch (...) { ... }`.  Returns [(labels[], text)] at nesting depth 0."""
    b = blank(switch_body)
    labels = []
    depth = 0
    i = 0
    pos = []
    rx = re.compile(r'case\s+%s::\s*(\w+)\s*:' % enum)
    while i < len(b):
        c = b[i]
        if c in '{(':
            depth += 1
        elif c in '})':
            depth -= 1
        elif depth == 0:
            m = rx.match(b, i)
            if m:
                pos.append((m.start(), m.end(), m.group(1)))
                i = m.end()
                continue
        i += 1
    groups = []
    k = 0
    while k < len(pos):
        labs = [pos[k][2]]
        end = pos[k][1]
        while k + 1 < len(pos) and b[end:pos[k + 1][0]].strip() == '':
            k += 1
            labs.append(pos[k][2])
            end = pos[k][1]
        nxt = pos[k + 1][0] if k + 1 < len(pos) else len(switch_body)
        groups.append((labs, switch_body[end:nxt]))
        k += 1
    return groups


def balanced_left(s, end):
    """start index of the call expression `name(...)` that ends at s[end-1] == ')'"""
    depth = 0
    i = end - 1
    while i >= 0:
        if s[i] == ')':
            depth += 1
        elif s[i] == '(':
            depth -= 1
            if depth == 0:
                break
        i -= 1
    j = i
    while j > 0 and (s[j - 1].isalnum() or s[j - 1] in '_:<>'):
        j -= 1
    return j


def balanced_right(s, start):
    """end index (exclusive) of the call expression `name(...)` starting at s[start]"""
    i = s.index('(', start)
    return match_brace(s, i) + 1


def r16_lxor(text, log):
    pat = re.compile(r'\s*\+\s*souffle::evaluator::lxor_infix\(\)\s*\+\s*')
    n = 0
    while True:
        m = pat.search(text)
        if not m:
            break
        ls = balanced_left(text, m.start())
        re_ = balanced_right(text, m.end())
        text = text[:ls] + 'souffle::evaluator::lxor(' + text[ls:m.start()] + ', ' + text[m.end():re_] + ')' + text[re_:]
        n += 1
    log['R16 `x + lxor_infix() + y` -> lxor(x, y)'] = log.get('R16 `x + lxor_infix() + y` -> lxor(x, y)', 0) + n
    return text


def r10_bitcast(text, log):
    text, n1 = re.subn(r'\bramBitCast<\s*(\w+)\s*>\s*\(', r'vx_bitcast_\1(', text)
    text, n2 = re.subn(r'\bramBitCast\s*\(', 'vx_bitcast_RamDomain(', text)
    log['R10 ramBitCast -> vx_bitcast_*'] = log.get('R10 ramBitCast -> vx_bitcast_*', 0) + n1 + n2
    return text


def r15_initlist(text, log):
    """std::max({e1, e2, }) -> vx_fold_max(e1, e2)   (initializer_list overloads; left fold, libstdc++ semantics)"""
    n = 0
    for fn in ('max', 'min'):
        while True:
            m = re.search(r'std::%s\(\{' % fn, text)
            if not m:
                break
            ob = m.end() - 1
            cb = match_brace(text, ob)
            inner = text[ob + 1:cb].strip()
            if inner.endswith(','):
                inner = inner[:-1]
            if text[cb + 1] != ')':
                raise ExtractError('R15: unexpected text after initializer list')
            text = text[:m.start()] + 'vx_fold_%s(%s)' % (fn, inner) + text[cb + 2:]
            n += 1
    log['R15 std::max/min({..}) -> vx_fold_*'] = log.get('R15 std::max/min({..}) -> vx_fold_*', 0) + n
    return text


NATIVE_EMIT = r'''
#include "FunctorOps.h"
#include "souffle/BinaryConstraintOps.h"
#include "souffle/RamTypes.h"
#include <cstdarg>
#include <cstdlib>
#include <iostream>
#include <optional>
#include <sstream>
#include <string>
#include <vector>
#define PRINT_BEGIN_COMMENT(o)
#define PRINT_END_COMMENT(o)
namespace souffle { std::ostream& operator<<(std::ostream& o, FunctorOp) { return o; } }
using namespace souffle;
struct Expression { int idx; };
struct StringConstant { std::string getConstant() const { return ""; } };
template <typename X> const X* as(const Expression*) { return nullptr; }
static std::string raw_str(const std::string&) { return ""; }
[[noreturn]] static void fatal(const char*, ...) { std::abort(); }
struct IntrinsicOperator {
    FunctorOp o; std::vector<Expression*> a;
    FunctorOp getOperator() const { return o; }
    std::vector<Expression*> getArguments() const { return a; }
};
struct Constraint {
    BinaryConstraintOp o; Expression l{0}, r{1};
    BinaryConstraintOp getOperator() const { return o; }
    const Expression& getLHS() const { return l; }
    const Expression& getRHS() const { return r; }
};
struct FakeClass { void addInclude(const std::string&, bool) {} };
struct FakeSynth {
    FakeClass cls; FakeClass* currentClass = &cls; bool SubroutineUsingSubstr = false, SubroutineUsingStdRegex = false;
    int convertSymbol2Idx(const std::string&) { return 0; }
    std::optional<int> compileRegex(const std::string&) { return {}; }
};
struct Emitter {
    FakeSynth synthesiser;
    void dispatch(const Expression& e, std::ostream& out) { out << "vx_a[" << e.idx << "]"; }
// ---- extracted emitter text (verbatim except `override` removed) ----
@FUNCTOR_EMITTER@
@CONSTRAINT_EMITTER@
};
int main() {
    Emitter em;
    Expression e0{0}, e1{1}, e2{2};
@CALLS@
    return 0;
}
'''


def extract(ctx):
    ramtypes.extract(ctx)
    log = {}
    eng = Source(os.path.join(ctx.repo, ENGINE))
    # ---------------------------------------------------------------- enums
    fops = Source(os.path.join(ctx.repo, FOPS))
    fenum, _ = fops.block(r'enum\s+class\s+FunctorOp\s*\{')
    bco = Source(os.path.join(ctx.repo, BCO))
    cenum, _ = bco.block(r'enum\s+class\s+BinaryConstraintOp\s*\{')
    evu = Source(os.path.join(ctx.repo, EVU))
    lxor, _ = evu.block(r'template\s*<\s*typename\s+A\s*>\s*bool\s+lxor\s*\(A\s+x,\s*A\s+y\)\s*\{', semi=False)
    ctx.fact('EvaluatorUtil.h: lxor_infix::curry<A>::operator+ returns lxor(x, y) and operator+(A, lxor_infix) builds curry<A>{x} (basis of R16)',
             evu.has(r'bool\s+operator\+\(A\s+y\)\s+const\s*\{\s*return\s+lxor\(x,\s*y\);\s*\}') and
             evu.has(r'lxor_infix::curry<A>\s+operator\+\(A\s+x,\s*lxor_infix\)\s*\{\s*return\s+lxor_infix::curry<A>\{x\};\s*\}'))

    # ---------------------------------------------------------------- interpreter
    evals = [eng.text[m.start():eng.text.index('\n', m.start())] for m in re.finditer(r'#define\s+EVAL_(CHILD|LEFT|RIGHT)\b', eng.b)]
    if len(evals) != 3:
        raise ExtractError('Engine.cpp: expected #define EVAL_CHILD/EVAL_LEFT/EVAL_RIGHT')

    def region(case_kind):
        m1 = eng.find(r'CASE\(%s\)' % case_kind)
        m2 = eng.find(r'\{UNREACHABLE_BAD_CASE_ANALYSIS\}|ESAC\(%s\)' % case_kind, 0, m1.end())
        txt = '\n'.join(evals) + '\n' + eng.text[m1.end():m2.start()]
        ctx.write('interp_%s.inc' % case_kind, txt)
        p = subprocess.run(['g++', '-E', '-P', '-x', 'c++', os.path.join(ctx.work, 'interp_%s.inc' % case_kind)], stdout=subprocess.PIPE, stderr=subprocess.PIPE)
        if p.returncode != 0:
            raise ExtractError('preprocessing of CASE(%s) failed: %s' % (case_kind, p.stderr.decode()[:300]))
        return p.stdout.decode()

    def interp_function(case_kind, enum, keep, drop_expected, sig, subst):
        pp = region(case_kind)
        b = blank(pp)
        ms = re.search(r'switch\s*\(\s*cur\.getOperator\(\)\s*\)\s*\{', b)
        if not ms:
            raise ExtractError('CASE(%s): `switch (cur.getOperator())` not found' % case_kind)
        cb = match_brace(b, ms.end() - 1)
        pre = pp[:ms.start()]
        groups = split_cases(pp[ms.end():cb], enum)
        kept, dropped = [], []
        seen = set()
        for labs, txt in groups:
            for l in labs:
                if l in seen:
                    raise ExtractError('CASE(%s): duplicate case label %s' % (case_kind, l))
                seen.add(l)
            is_string = re.search(r'getSymbolTable|regex|stringstream|std::string|fatal\(|symbol2numeric|to_string', txt) is not None
            if is_string:
                dropped += labs
                if any(l in keep for l in labs):
                    raise ExtractError('CASE(%s): numeric operator %s now uses symbol-table/string code' % (case_kind, labs))
            else:
                kept.append((labs, txt))
        missing = [k for k in keep if k not in seen]
        if missing:
            raise ExtractError('CASE(%s): operators %s have no case in the interpreter switch' % (case_kind, missing))
        extra = [l for labs, _ in kept for l in labs if l not in keep]
        if extra:
            raise ExtractError('CASE(%s): numeric-looking operators %s are not in the specification table' % (case_kind, extra))
        unexpected = sorted(set(dropped) - set(drop_expected))
        if unexpected:
            raise ExtractError('CASE(%s): unexpected string cases %s' % (case_kind, unexpected))
        body = pre + 'switch (vx_op) {\n' + ''.join(''.join('case %s::%s:' % (enum, l) for l in labs) + txt for labs, txt in kept) + '}\n'
        for rx_, rp in subst:
            body, n = re.subn(rx_, rp, body)
            log['R8 %s: %s' % (case_kind, rp)] = n
        if re.search(r'\b(shadow|ctxt|cur)\b', blank(body)):
            raise ExtractError('CASE(%s): the kept cases still refer to shadow/ctxt/cur after R8' % case_kind)
        body = re.sub(r'^[ \t]*static_assert\s*\([^;]*\);[ \t]*\n', '', body, flags=re.M)
        body = r16_lxor(body, log)
        body = r10_bitcast(body, log)
        return '%s {\n%s\n    return vx_unreachable();\n}\n' % (sig, body), dropped

    f_sig = 'RamDomain interp_functor(FunctorOp vx_op, const RamDomain* vx_a, std::size_t vx_n)'
    f_subst = [(r'execute\(\s*shadow\.getChild\(([^()]*)\)\s*,\s*ctxt\s*\)', r'vx_a[\1]'), (r'cur\.getNumArgs\(\)', 'vx_n')]
    keep_f = list(T.FUNCTORS) + list(T.MINMAX) + list(T.UNDECIDED_FUNCTORS)
    ftext, fdropped = interp_function('IntrinsicOperator', 'FunctorOp', keep_f, T.STRING_FUNCTORS, f_sig, f_subst)
    c_sig = 'RamDomain interp_constraint(BinaryConstraintOp vx_op, RamDomain vx_l, RamDomain vx_r)'
    c_subst = [(r'execute\(\s*shadow\.getLhs\(\)\s*,\s*ctxt\s*\)', 'vx_l'), (r'execute\(\s*shadow\.getRhs\(\)\s*,\s*ctxt\s*\)', 'vx_r')]
    ctext, cdropped = interp_function('Constraint', 'BinaryConstraintOp', list(T.CONSTRAINTS), T.STRING_CONSTRAINTS, c_sig, c_subst)

    common = ('#ifndef VX_FUNCTORS_COMMON\n#define VX_FUNCTORS_COMMON\nnamespace souffle {\n' + strip_comments(fenum) + '\n' + strip_comments(cenum) +
              '\nnamespace evaluator {\n' + strip_comments(lxor) + '\n}\n}\n#endif\n')
    ctx.write('common.hpp', common)
    raw = ('#include "common.hpp"\nnamespace souffle {\n' + ftext + '\n' + ctext + '\n}\n')
    ctx.write('interp_raw.hpp', raw)
    # native compile of the same text with the real RamTypes.h (auto resolution + loop-modified sets)
    native = ('#include <cstddef>\n#include <cstdint>\n#include <cmath>\n#include <algorithm>\n#include <type_traits>\n#include "souffle/RamTypes.h"\n'
              'namespace souffle {\n'
              + ''.join('template <typename X> %s vx_bitcast_%s(X x) { return ramBitCast<%s>(x); }\n' % (t, t, t) for t in ('RamDomain', 'RamSigned', 'RamUnsigned', 'RamFloat'))
              + 'inline RamDomain vx_unreachable() { return 0; }\n}\n#include "interp_raw.hpp"\n')
    ctx.write('interp_native.cpp', native)
    docs = rw.clang_ast('interp_native.cpp', 'interp_', ctx.work, extra=['-I', os.path.join(ctx.repo, 'src/include')])
    text, n_auto = rw.r2_auto(raw, 'interp_raw.hpp', docs, log)
    if n_auto == 0:
        raise ExtractError('R2 must fire in the interpreter functor unit')
    # loops: the n-ary MIN/MAX folds
    loops, _ = rw.find_loops(text, r'RamDomain\s+interp_functor\s*\([^)]*\)\s*\{')
    hooks = []
    order = []
    for k, (kw, ks, po, pc) in enumerate(loops):
        # which case does this loop belong to?  nearest preceding case label
        labs = re.findall(r'case\s+FunctorOp::(\w+):', text[:ks])
        lab = labs[-1]
        if lab not in T.MINMAX:
            raise ExtractError('unexpected loop in case %s of the interpreter functor switch' % lab)
        order.append(lab)
        mod = rw.loop_modified(docs, raw, 'interp_functor', k)
        log['loop interp_functor.%d (%s) modified set (clang)' % (k, lab)] = mod
        if sorted(mod) != ['i', 'result']:
            raise ExtractError('loop of %s modifies %s, hook havocs only i,result' % (lab, mod))
        hooks.append(dict(func=r'RamDomain\s+interp_functor\s*\([^)]*\)\s*\{', name='mm', k=k, args='&i, &result, vx_a, vx_n'))
    if sorted(order) != sorted(T.MINMAX):
        raise ExtractError('expected exactly one fold loop per MIN/MAX operator, found %s' % order)
    text = rw.r9_hooks(text, hooks, log)
    ctx.minmax_order = order
    CT = {'I': 'int', 'U': 'unsigned', 'F': 'float'}
    hh = ['#ifndef VX_FUNCTOR_HOOKS_H', '#define VX_FUNCTOR_HOOKS_H', 'extern "C" {', 'int vx_unreachable(void);']
    for k, lab in enumerate(order):
        hh.append('void vx_enter_mm_%d(void);' % k)
        hh.append('bool vx_head_mm_%d(unsigned long* i, %s* result, const int* a, unsigned long n);' % (k, CT[T.MINMAX[lab][0]]))
    hh += ['}', '#endif']
    ctx.write('vx_functor_hooks.h', '\n'.join(hh) + '\n')
    ctx.write('interp.hpp', '#include <cstddef>\n#include <cmath>\n#include <algorithm>\n#include "vx_bitcast.h"\n#include "vx_functor_hooks.h"\n' + text)
    ctx.dropped.append('interpreter IntrinsicOperator cases dropped (symbol-table / string code, outside the front end): ' + ', '.join(fdropped))
    ctx.dropped.append('interpreter Constraint cases dropped: ' + ', '.join(cdropped))
    ctx.dropped.append('NOT ATTEMPTED (kept in the extracted switch, no contract): ' + '; '.join('%s — %s' % kv for kv in T.UNDECIDED_FUNCTORS.items()))
    ctx.dropped.append('NestedIntrinsicOperator (RANGE generators: forwarding-reference lambda) and UserDefinedOperator')

    # ---------------------------------------------------------------- synthesiser (native emission)
    syn = Source(os.path.join(ctx.repo, SYNTH))
    fe, _ = syn.block(r'void\s+visit_\(\s*type_identity<IntrinsicOperator>[^{]*\{', semi=False)
    ce, _ = syn.block(r'void\s+visit_\(\s*type_identity<Constraint>[^{]*\{', semi=False)
    fe = re.sub(r'\)\s*override\s*\{', ') {', fe, count=1)
    ce = re.sub(r'\)\s*override\s*\{', ') {', ce, count=1)
    calls = []
    for op, (ar, dom, spec, be) in T.FUNCTORS.items():
        args = ', '.join('&e%d' % i for i in range(ar))
        calls.append('    { IntrinsicOperator o{FunctorOp::%s, {%s}}; std::ostringstream s; em.visit_(type_identity<IntrinsicOperator>(), o, s); std::cout << "F\\t%s\\t%d\\t" << s.str() << "\\n"; }' % (op, args, op, ar))
    for op in T.MINMAX:
        for ar in (1, 2, 3):
            args = ', '.join('&e%d' % i for i in range(ar))
            calls.append('    { IntrinsicOperator o{FunctorOp::%s, {%s}}; std::ostringstream s; em.visit_(type_identity<IntrinsicOperator>(), o, s); std::cout << "F\\t%s\\t%d\\t" << s.str() << "\\n"; }' % (op, args, op, ar))
    for op in T.CONSTRAINTS:
        calls.append('    { Constraint o{BinaryConstraintOp::%s}; std::ostringstream s; em.visit_(type_identity<Constraint>(), o, s); std::cout << "C\\t%s\\t2\\t" << s.str() << "\\n"; }' % (op, op))
    prog = NATIVE_EMIT.replace('@FUNCTOR_EMITTER@', fe).replace('@CONSTRAINT_EMITTER@', ce).replace('@CALLS@', '\n'.join(calls))
    ctx.write('emit.cpp', prog)
    exe = os.path.join(ctx.work, 'emit')
    p = subprocess.run(['g++', '-std=c++17', '-w', '-I', os.path.join(ctx.repo, 'src'), '-I', os.path.join(ctx.repo, 'src/include'),
                        os.path.join(ctx.work, 'emit.cpp'), '-o', exe], stdout=subprocess.PIPE, stderr=subprocess.STDOUT)
    if p.returncode != 0:
        raise ExtractError('native compile of the synthesiser emitter text failed: ' + p.stdout.decode()[:800])
    q = subprocess.run([exe], stdout=subprocess.PIPE, stderr=subprocess.STDOUT)
    if q.returncode != 0:
        raise ExtractError('running the extracted emitter failed: ' + q.stdout.decode()[:300])
    emitted = {}
    syn_fns = []
    for line in q.stdout.decode().splitlines():
        kind, op, ar, s = line.split('\t', 3)
        emitted['%s %s/%s' % (kind, op, ar)] = s
        e = r15_initlist(r16_lxor(s, log), log)
        e = r10_bitcast(e, log)
        if kind == 'F':
            name = 'synth_%s' % op if op not in T.MINMAX else 'synth_%s_%s' % (op, ar)
            syn_fns.append('RamDomain %s(const RamDomain* vx_a) { return vx_bitcast_RamDomain(%s); }' % (name, e))
        else:
            syn_fns.append('RamDomain synthc_%s(const RamDomain* vx_a) { if (%s) return 1; return 0; }' % (op, e))
    ctx.emitted = emitted
    gen_native_replay(ctx, emitted)
    ctx.write('synth.hpp', '#include <cstddef>\n#include <cstdint>\n#include <cmath>\n#include <algorithm>\n#include "vx_bitcast.h"\n#include "vx_fold.h"\n#include "common.hpp"\nnamespace souffle {\n'
              + '\n'.join(syn_fns) + '\n}\n')
    ctx.rewrites['emitted strings (sample)'] = {k: emitted[k] for k in list(emitted)[:6]}
    ctx.dropped.append('synthesiser: string operators of the same switches (emitted text mentions symTable)')

    # ---------------------------------------------------------------- operator tables of BinaryConstraintOps.h
    tfns = []
    for fn in TABLE_FNS:
        t, _ = bco.block(r'inline\s+(?:bool|BinaryConstraintOp)\s+%s\s*\(\s*const\s+BinaryConstraintOp\s+\w+\s*\)\s*\{' % fn, semi=False)
        tfns.append(strip_comments(t))
    names = re.findall(r'\b([A-Z_]+)\b\s*(?:,|\})', re.sub(r'//[^\n]*', '', cenum[cenum.index('{'):]))
    ctx.constraint_enum = names
    ctx.write('tables.hpp', '#include <cassert>\n#include "common.hpp"\nextern "C" int vx_unreachable(void);\n#define UNREACHABLE_BAD_CASE_ANALYSIS return (BinaryConstraintOp)vx_unreachable();\nnamespace souffle {\n'
              + '\n'.join(tfns) + '\n}\n')
    # ---------------------------------------------------------------- generated wrappers + contracts
    gen_wrappers(ctx)
    gen_contracts(ctx)
    ctx.rewrites.update(log)


def gen_native_replay(ctx, emitted):
    """native replay program: the preprocessed interpreter switch and the emitted synthesiser expressions compiled by g++ with the
    REAL RamTypes.h / EvaluatorUtil.h / BinaryConstraintOps.h, compared with the specification on one operand tuple"""
    L = ['#include "FunctorOps.h"', '#include "souffle/BinaryConstraintOps.h"', '#include "souffle/utility/EvaluatorUtil.h"',
         '#define VX_FUNCTORS_COMMON  /* the real enums and lxor instead of the extracted copies */', '#include "interp_native.cpp"', '#include <cmath>', '#include <cstdio>', '#include <cstdlib>', '#include <cstring>', '#include <string>',
         'using namespace souffle;',
         '#define U(x) ((unsigned)(x))', '#define L(x) ((long)(x))', '#define UL(x) ((unsigned long)(unsigned)(x))',
         'static float F(int x) { float f; std::memcpy(&f, &x, 4); return f; }', 'static int FB(float f) { int i; std::memcpy(&i, &f, 4); return i; }',
         '#define POWD(a, b) std::pow((double)(a), (double)(b))', '#define POWF(a, b) std::pow((float)(a), (float)(b))']
    for op, (ar, dom, spec, be) in T.FUNCTORS.items():
        args = ', '.join('int a%d' % i for i in range(2))
        L.append('static int spec_%s(%s) { (void)a1; return %s; }' % (op, args, spec))
        L.append('static bool dom_%s(%s) { (void)a1; return %s; }' % (op, args, dom))
        L.append('static RamDomain nsynth_%s(const RamDomain* vx_a) { return ramBitCast(%s); }' % (op, emitted['F %s/%d' % (op, ar)]))
    for op, spec in T.CONSTRAINTS.items():
        L.append('static int specc_%s(int a0, int a1) { return (%s) ? 1 : 0; }' % (op, spec))
        L.append('static RamDomain nsynthc_%s(const RamDomain* vx_a) { return (%s) ? 1 : 0; }' % (op, emitted['C %s/2' % op]))
    L.append('int main(int argc, char** argv) {\n    if (argc < 5) return 2;\n    std::string kind = argv[1], op = argv[2]; RamDomain a[2] = {(RamDomain)std::atoll(argv[3]), (RamDomain)std::atoll(argv[4])};')
    for op, (ar, dom, spec, be) in T.FUNCTORS.items():
        L.append('    if (op == "%s" && (kind == "interp" || kind == "synth")) { if (!dom_%s(a[0], a[1])) { std::printf("outside the defined domain\\n"); return 0; } int want = spec_%s(a[0], a[1]); '
                 'int got = kind == "interp" ? interp_functor(FunctorOp::%s, a, %d) : nsynth_%s(a); std::printf("%%s %s(%%d,%%d): got %%d (0x%%08x), specification %%d (0x%%08x)\\n", kind.c_str(), a[0], a[1], got, got, want, want); return got == want ? 0 : 1; }'
                 % (op, op, op, op, ar, op, op))
    for op in T.CONSTRAINTS:
        L.append('    if (op == "%s" && (kind == "interpc" || kind == "synthc")) { int want = specc_%s(a[0], a[1]); int got = kind == "interpc" ? interp_constraint(BinaryConstraintOp::%s, a[0], a[1]) : nsynthc_%s(a); '
                 'std::printf("%%s %s(%%d,%%d): got %%d, specification %%d\\n", kind.c_str(), a[0], a[1], got, want); return got == want ? 0 : 1; }' % (op, op, op, op, op))
    L.append('''    if (kind == "tables") {
        auto o = (BinaryConstraintOp)std::atoi(argv[2]);
        if (isStrictIneqConstraint(o)) {
            bool s = interp_constraint(o, a[0], a[1]) != 0, w = interp_constraint(convertStrictToWeakIneqConstraint(o), a[0], a[1]) != 0, ne = interp_constraint(convertStrictToNotEqualConstraint(o), a[0], a[1]) != 0;
            std::printf("operator #%d on bit patterns (%d,%d): strict=%d weak=%d notequal=%d\\n", (int)o, a[0], a[1], s, w, ne);
            if (s != (w && ne)) return 1;
        }
        bool nan = false; { float x = F(a[0]), y = F(a[1]); nan = x != x || y != y; }
        bool isf = o == BinaryConstraintOp::FEQ || o == BinaryConstraintOp::FNE || o == BinaryConstraintOp::FLT || o == BinaryConstraintOp::FLE || o == BinaryConstraintOp::FGT || o == BinaryConstraintOp::FGE;
        if (!(isf && nan)) { bool e = interp_constraint(o, a[0], a[1]) != 0, n = interp_constraint(negatedConstraintOp(o), a[0], a[1]) != 0; if (e == n) { std::printf("negation table wrong for operator #%d\\n", (int)o); return 1; } }
        return 0;
    }''')
    L.append('    return 2;\n}')
    ctx.write('replay_native.cpp', '\n'.join(L) + '\n')


def replay(ctx, h, r, ins, tr):
    last = (tr or {}).get('last', {})
    parts = h.name.split('.')
    kind = parts[1]
    exe = os.path.join(ctx.work, 'replay_functors')
    p = subprocess.run(['g++', '-std=c++17', '-w', '-I', os.path.join(ctx.repo, 'src/include'), '-I', os.path.join(ctx.repo, 'src'), os.path.join(ctx.work, 'replay_native.cpp'), '-o', exe],
                       stdout=subprocess.PIPE, stderr=subprocess.STDOUT)
    if p.returncode != 0:
        return None, 'native replay build failed: ' + p.stdout.decode()[-400:]
    def val(*names):
        for n in names:
            if n in last:
                try:
                    return int(re.sub(r'[uUlL]+$', '', str(last[n])))
                except ValueError:
                    pass
        return 0
    if kind == 'tables':
        loc = {}
        for lhs, data, fn, kind_ in (tr or {}).get('order', []):
            if fn == 'lemma_tables' and kind_ == 'variable' and lhs in ('op', 'a', 'b'):
                loc[lhs] = data          # the harness' own locals (callees reuse the names)
        def lv(n):
            try:
                return int(re.sub(r'[uUlL]+$', '', str(loc.get(n, 0))))
            except ValueError:
                return 0
        args = ['tables', str(lv('op')), str(lv('a')), str(lv('b'))]
    elif len(parts) >= 3 and parts[2] in T.FUNCTORS or (len(parts) >= 3 and parts[2] in T.CONSTRAINTS):
        args = [kind, parts[2], str(val('in_a[0l]', 'in_a[0]', 'in_a[0L]')), str(val('in_a[1l]', 'in_a[1]', 'in_a[1L]'))]
    else:
        return None, 'no native replay for n-ary MIN/MAX harnesses'
    q = subprocess.run([exe] + args, stdout=subprocess.PIPE, stderr=subprocess.STDOUT)
    return q.returncode == 1, 'real code (preprocessed interpreter switch / emitted expression, g++ with the real headers): ' + q.stdout.decode().strip()[-300:]


def gen_wrappers(ctx):
    w = ['#include "interp.hpp"', '#include "synth.hpp"', 'using namespace souffle;', 'extern "C" {']
    for op, (ar, dom, spec, be) in T.FUNCTORS.items():
        w.append('int h_interp_%s(const int* a, unsigned long n) { return interp_functor(FunctorOp::%s, a, n); }' % (op, op))
        w.append('int h_synth_%s(const int* a, unsigned long n) { return synth_%s(a); }' % (op, op))
    for op in T.MINMAX:
        w.append('int h_interp_%s(const int* a, unsigned long n) { return interp_functor(FunctorOp::%s, a, n); }' % (op, op))
        for ar in (1, 2, 3):
            w.append('int h_synth_%s_%d(const int* a, unsigned long n) { return synth_%s_%d(a); }' % (op, ar, op, ar))
    for op in T.CONSTRAINTS:
        w.append('int h_interpc_%s(int l, int r) { return interp_constraint(BinaryConstraintOp::%s, l, r); }' % (op, op))
        w.append('int h_synthc_%s(const int* a, unsigned long n) { return synthc_%s(a); }' % (op, op))
    w.insert(2, '#include "tables.hpp"')
    for fn in TABLE_FNS:
        w.append('int h_tbl_%s(int op) { return (int)%s((BinaryConstraintOp)op); }' % (fn, fn))
    w.append('int h_E(int op, int l, int r) { return interp_constraint((BinaryConstraintOp)op, l, r); }')
    w.append('}')
    ctx.write('wrappers.cpp', '\n'.join(w) + '\n')


PRELUDE_C = r'''
/* GENERATED each run by units/functors/unit.py from optable.py (the specification) — do not edit */
#include <stddef.h>
#include <stdlib.h>
#define U(x) ((unsigned)(x))
#define L(x) ((long)(x))
#define UL(x) ((unsigned long)(unsigned)(x))
static float F(int x) { union { int i; float f; } u; u.i = x; return u.f; }
static int FB(float f) { union { int i; float f; } u; u.f = f; return u.i; }
double __CPROVER_uninterpreted_powd(double, double);
float __CPROVER_uninterpreted_powf(float, float);
#define POWD(a, b) __CPROVER_uninterpreted_powd((a), (b))
#define POWF(a, b) __CPROVER_uninterpreted_powf((a), (b))
double vx_pow_d(double a, double b) { return POWD(a, b); }
float vx_pow_f(float a, float b) { return POWF(a, b); }
int vx_unreachable_hit;
int nondet_int(void); unsigned long nondet_ulong(void);
#ifdef VX_CANARY
#define CANARY __CPROVER_assert(0, "canary: reachable after the call under contract")
#else
#define CANARY
#endif
int in_a[8];   /* operand representations */
'''


def gen_contracts(ctx):
    c = [PRELUDE_C]
    for op, (ar, dom, spec, be) in T.FUNCTORS.items():
        args = ', '.join('int a%d' % i for i in range(ar))
        call = ', '.join('in_a[%d]' % i for i in range(ar))
        c.append('static _Bool dom_%s(%s) { return %s; }' % (op, args, dom))
        c.append('static int spec_%s(%s) { return %s; }' % (op, args, spec))
        for eng in ('interp', 'synth'):
            c.append('int h_%s_%s(const int *a, unsigned long n)\n__CPROVER_requires(a == in_a && n == %d && dom_%s(%s))\n'
                     '__CPROVER_ensures(__CPROVER_return_value == spec_%s(%s))\n__CPROVER_assigns();' % (eng, op, ar, op, call, op, call))
            c.append('void harness_%s_%s(void) { %s h_%s_%s(in_a, %d); CANARY; }' %
                     (eng, op, ' '.join('in_a[%d] = nondet_int();' % i for i in range(8)), eng, op, ar))
    for op, spec in T.CONSTRAINTS.items():
        c.append('static int specc_%s(int a0, int a1) { return (%s) ? 1 : 0; }' % (op, spec))
        c.append('int h_interpc_%s(int l, int r)\n__CPROVER_ensures(__CPROVER_return_value == specc_%s(l, r))\n__CPROVER_assigns();' % (op, op))
        c.append('void harness_interpc_%s(void) { in_a[0] = nondet_int(); in_a[1] = nondet_int(); h_interpc_%s(in_a[0], in_a[1]); CANARY; }' % (op, op))
        c.append('int h_synthc_%s(const int *a, unsigned long n)\n__CPROVER_requires(a == in_a)\n__CPROVER_ensures(__CPROVER_return_value == specc_%s(in_a[0], in_a[1]))\n__CPROVER_assigns();' % (op, op))
        c.append('void harness_synthc_%s(void) { in_a[0] = nondet_int(); in_a[1] = nondet_int(); h_synthc_%s(in_a, 2); CANARY; }' % (op, op))
    # ---- table lemmas over the interpreter's own evaluator E(op, a, b) = interp_constraint(op, a, b)
    en = ctx.constraint_enum
    c.append('enum { %s };' % ', '.join('OP_%s = %d' % (n, i) for i, n in enumerate(en)))
    for fn in TABLE_FNS:
        c.append('int h_tbl_%s(int op);' % fn)
    c.append('int h_E(int op, int l, int r);')
    numeric = [n for n in en if n in T.CONSTRAINTS]
    c.append('static _Bool is_numeric_op(int op) { return %s; }' % ' || '.join('op == OP_%s' % n for n in numeric))
    c.append('static _Bool is_float_op(int op) { return %s; }' % ' || '.join('op == OP_%s' % n for n in numeric if n.startswith('F')))
    c.append('''
void lemma_tables(void) {
    int op = nondet_int(), a = nondet_int(), b = nondet_int();
    __CPROVER_assume(is_numeric_op(op));
    _Bool nan = is_float_op(op) && (F(a) != F(a) || F(b) != F(b));
    /* the split MakeIndex relies on: a strict inequality == its weak form AND its not-equal form, for ALL values (NaN, +-0 included) */
    if (h_tbl_isStrictIneqConstraint(op)) {
        int w = h_tbl_convertStrictToWeakIneqConstraint(op), ne = h_tbl_convertStrictToNotEqualConstraint(op);
        __CPROVER_assert(is_numeric_op(w) && is_numeric_op(ne) && h_tbl_isWeakIneqConstraint(w), "table lemma: strict->weak / strict->not-equal stay within the numeric operators");
        __CPROVER_assert((h_E(op, a, b) != 0) == ((h_E(w, a, b) != 0) && (h_E(ne, a, b) != 0)), "table lemma: strict(a,b) == weak(a,b) && notequal(a,b) for all values");
        __CPROVER_assert(h_E(op, a, a) == 0, "table lemma: strict inequalities are irreflexive");
    }
    if (h_tbl_isWeakIneqConstraint(op) && !nan) __CPROVER_assert(h_E(op, a, a) != 0, "table lemma: weak inequalities are reflexive (non-NaN)");
    __CPROVER_assert(!(h_tbl_isStrictIneqConstraint(op) && h_tbl_isWeakIneqConstraint(op)), "table lemma: strict and weak are disjoint");
    /* negation table: exact complement for integer operators and for float operators on non-NaN operands */
    { int ng = h_tbl_negatedConstraintOp(op);
      __CPROVER_assert(is_numeric_op(ng), "table lemma: negation stays within the numeric operators");
      if (!nan) __CPROVER_assert((h_E(ng, a, b) != 0) == (h_E(op, a, b) == 0), "table lemma: negated(op)(a,b) == !op(a,b)"); }
    /* direction predicates agree with the evaluator */
    if (h_tbl_isLessThan(op) || h_tbl_isGreaterThan(op)) __CPROVER_assert(h_tbl_isStrictIneqConstraint(op) && !(h_E(op, a, b) != 0 && h_E(op, b, a) != 0), "table lemma: less/greater-than operators are strict and asymmetric");
    if (h_tbl_isLessEqual(op) || h_tbl_isGreaterEqual(op)) __CPROVER_assert(h_tbl_isWeakIneqConstraint(op), "table lemma: less/greater-equal operators are weak");
    if (h_tbl_isLessThan(op) && h_E(op, a, b) != 0) __CPROVER_assert(h_E(h_tbl_convertStrictToWeakIneqConstraint(op), a, b) != 0 && h_tbl_isLessEqual(h_tbl_convertStrictToWeakIneqConstraint(op)), "table lemma: LT implies its LE");
    if (h_tbl_isGreaterThan(op) && h_E(op, a, b) != 0) __CPROVER_assert(h_tbl_isGreaterEqual(h_tbl_convertStrictToWeakIneqConstraint(op)) && h_E(h_tbl_convertStrictToWeakIneqConstraint(op), a, b) != 0, "table lemma: GT implies its GE");
    if (h_tbl_isEqConstraint(op)) __CPROVER_assert(nan || h_E(op, a, a) != 0, "table lemma: equality operators are reflexive (non-NaN)");
    if (h_tbl_isSignedInequalityConstraint(op)) __CPROVER_assert((h_E(op, a, b) != 0) == ((op == OP_LT) ? (a < b) : (op == OP_LE) ? (a <= b) : (op == OP_GT) ? (a > b) : (a >= b)), "table lemma: signed inequality operators compare as signed integers");
    CANARY;
}''')
    CT = {'I': 'int', 'U': 'unsigned', 'F': 'float'}
    VAL = {'I': '(x)', 'U': 'U(x)', 'F': 'F(x)'}
    c.append('int *g_arr; unsigned long g_n, in_k, g_w;   /* operand array, ghost index (universal), ghost witness (existential) */')
    c.append('int vx_unreachable(void) { __CPROVER_assert(0, "interpreter switch: operator has a case"); return 0; }')
    for k, lab in enumerate(ctx.minmax_order):
        ty, cmp_ = T.MINMAX[lab]
        ct = CT[ty]
        val = lambda e: VAL[ty].replace('x', e)
        # "acc is at least as good as x":  MAX: !(x > acc) ; for floats NaN operands compare false => ignored
        ok = '(!(%s %s %s))' % (val('g_arr[in_k]'), cmp_, 'r')
        c.append('static _Bool first_mm_%d;' % k)
        eqw = 'FB(r) == g_arr[g_w]' if ty == 'F' else '%s == r' % val('g_arr[g_w]')
        c.append('static _Bool I_mm_%d(unsigned long i, %s r) { return 1 <= i && i <= g_n && g_w < i && %s && (in_k < i ? %s : 1)%s; }'
                 % (k, ct, eqw, ok, ' && r == r' if ty == 'F' else ''))
        c.append('void vx_enter_mm_%d(void) { first_mm_%d = 1; }' % (k, k))
        c.append('''_Bool vx_head_mm_%d(unsigned long *i, %s *result, const int *a, unsigned long n) {
    __CPROVER_assert(a == g_arr && n == g_n, "loop %s: operates on the operand array");
    if (first_mm_%d) {
        g_w = 0;
        __CPROVER_assert(I_mm_%d(*i, *result), "loop interp_functor.%s invariant base");
        unsigned long hi; %s hr; unsigned long hw; *i = hi; *result = hr; g_w = hw;
        __CPROVER_assume(I_mm_%d(*i, *result));
        first_mm_%d = 0;
    } else {
        /* re-establish the witness: the new result is either the old one or the element just folded in */
        if (!(g_w < *i && %s)) g_w = *i - 1;
        __CPROVER_assert(I_mm_%d(*i, *result), "loop interp_functor.%s invariant step");
        __CPROVER_assume(0);
    }
    return 1;
}''' % (k, ct, lab, k, k, lab, ct, k, k,
        ('g_arr[g_w] == FB(*result)' if ty == 'F' else '%s == *result' % val('g_arr[g_w]')), k, lab))
        # contracts: interpreter (any arity >= 1), synthesiser (arity 1..3)
        post_all = ('F(g_arr[in_k]) != F(g_arr[in_k]) || ' if ty == 'F' else '') + '!(%s %s %s)' % (val('g_arr[in_k]'), cmp_, val('__CPROVER_return_value'))
        dom = 'F(g_arr[0]) == F(g_arr[0])' if ty == 'F' else '1'
        c.append('int h_interp_%s(const int *a, unsigned long n)\n__CPROVER_requires(a == g_arr && n == g_n && n >= 1 && in_k < n && %s)\n'
                 '__CPROVER_ensures(%s)\n__CPROVER_ensures(g_w < g_n && __CPROVER_return_value == g_arr[g_w])\n__CPROVER_assigns(g_w, first_mm_%d);' % (lab, dom, post_all, k))
        c.append('void harness_interp_%s(void) { g_n = nondet_ulong(); __CPROVER_assume(g_n >= 1 && g_n <= 4096); g_arr = malloc(g_n * sizeof(int)); '
                 '__CPROVER_assume(g_arr != NULL); in_k = nondet_ulong(); __CPROVER_assume(in_k < g_n); h_interp_%s(g_arr, g_n); CANARY; }' % (lab, lab))
        for ar in (1, 2, 3):
            member = ' || '.join('__CPROVER_return_value == in_a[%d]' % i for i in range(ar))
            post = post_all.replace('g_arr[', 'in_a[')
            c.append('int h_synth_%s_%d(const int *a, unsigned long n)\n__CPROVER_requires(a == in_a && in_k < %d && %s)\n__CPROVER_ensures(%s)\n__CPROVER_ensures(%s)\n__CPROVER_assigns();'
                     % (lab, ar, ar, dom.replace('g_arr[', 'in_a['), post, member))
            c.append('void harness_synth_%s_%d(void) { %s in_k = nondet_ulong(); __CPROVER_assume(in_k < %d); h_synth_%s_%d(in_a, %d); CANARY; }'
                     % (lab, ar, ' '.join('in_a[%d] = nondet_int();' % i for i in range(8)), ar, lab, ar, ar))
    ctx.write('contracts_gen.c', '\n'.join(c) + '\n')


CONV_FLAGS = ['--bounds-check', '--pointer-check', '--signed-overflow-check', '--div-by-zero-check', '--undefined-shift-check', '--conversion-check']
CONV_EXCL = [(r'arithmetic overflow on (signed|unsigned) to (signed|unsigned) type conversion',
              'integer-to-integer conversions are modular (defined / implementation-defined two\'s complement), not among the undefined cases; '
              'float-to-integer conversion checks are kept')]


def harnesses(ctx):
    cpp = os.path.join(ctx.work, 'wrappers.cpp')
    c = [os.path.join(ctx.work, 'contracts_gen.c')]
    hs = []
    for op, (ar, dom, spec, be) in T.FUNCTORS.items():
        for eng in ('interp', 'synth'):
            hs.append(Harness('functors.%s.%s' % (eng, op), 'harness_%s_%s' % (eng, op), cpp=cpp, c=c, enforce='h_%s_%s' % (eng, op),
                              must_have=['postcondition'], backend=be, unwind=None, flags=list(CONV_FLAGS), exclude=list(CONV_EXCL),
                              clause='%s %s == specification on its defined domain' % (eng, op),
                              funcs=['Engine::execute CASE(IntrinsicOperator) case %s' % op if eng == 'interp' else 'Synthesiser emitter visit_(IntrinsicOperator) case %s' % op]))
    for op in T.MINMAX:
        hs.append(Harness('functors.interp.%s' % op, 'harness_interp_%s' % op, cpp=cpp, c=c, enforce='h_interp_%s' % op, unwind=2,
                          must_have=['postcondition', 'invariant base', 'invariant step'],
                          clause='interpreter n-ary %s (any arity >= 1): result is an operand and no operand is better' % op,
                          funcs=['Engine::execute CASE(IntrinsicOperator) case %s (fold loop)' % op]))
        for ar in (1, 2, 3):
            hs.append(Harness('functors.synth.%s.%d' % (op, ar), 'harness_synth_%s_%d' % (op, ar), cpp=cpp, c=c, enforce='h_synth_%s_%d' % (op, ar),
                              unwind=None, must_have=['postcondition'], clause='compiled %s at arity %d' % (op, ar),
                              funcs=['Synthesiser emitter visit_(IntrinsicOperator) case %s' % op]))
    for op in T.CONSTRAINTS:
        hs.append(Harness('functors.interpc.%s' % op, 'harness_interpc_%s' % op, cpp=cpp, c=c, enforce='h_interpc_%s' % op, must_have=['postcondition'],
                          unwind=None, clause='interpreter constraint %s == specification' % op, funcs=['Engine::execute CASE(Constraint) case %s' % op]))
        hs.append(Harness('functors.synthc.%s' % op, 'harness_synthc_%s' % op, cpp=cpp, c=c, enforce='h_synthc_%s' % op, must_have=['postcondition'],
                          unwind=None, clause='compiled constraint %s == specification' % op, funcs=['Synthesiser emitter visit_(Constraint) case %s' % op]))
    hs.append(Harness('functors.tables', 'lemma_tables', cpp=cpp, c=c, unwind=None, must_have=['table lemma'],
                      clause='BinaryConstraintOps.h tables (strict->weak/not-equal split used by MakeIndex, negation, direction predicates) agree with the interpreter evaluator for all operands',
                      funcs=['souffle::' + f for f in TABLE_FNS]))
    return hs


ASSUMPTIONS = [
    "CBMC's bit-vector and IEEE-754 binary32 semantics (round-to-nearest-even) equal the target's",
    'std::pow is a deterministic function of its arguments (uninterpreted); EXP/UEXP are defined when its result truncates into the type',
    'sub-expression evaluation is abstracted: operands are arbitrary 32-bit values passed in order (vx_a[i])',
    'RAM_DOMAIN_SIZE == 32',
]
TRUSTED = ['stubs/vx_bitcast.h (R10; ramBitCast itself is cross-checked natively)', 'stubs/algorithm (std::min/max)', 'stubs/cmath (pow uninterpreted)',
           'units/functors/optable.py (the specification)', 'g++ -E for macro expansion of the interpreter switch',
           'native execution of the extracted synthesiser emitter to obtain the emitted expressions', 'rewrite rules R2,R5,R8,R9,R10,R15,R16']

MUTANTS = [
    dict(name='interp shift mask dropped', file=ENGINE, find=r'return ramBitCast\(EVAL_CHILD\(ty, 0\) op \(EVAL_CHILD\(ty, 1\) & RAM_BIT_SHIFT_MASK\)\)', repl='return ramBitCast(EVAL_CHILD(ty, 0) op (EVAL_CHILD(ty, 1)))', expect=r'functors\.interp\.U?BSHIFT'),
    dict(name='synth shift mask dropped', file=SYNTH, find=r'#define BINARY_OP_EXPR_SHIFT\(ty, op\) BINARY_OP_EXPR_EX\(ty, op, " & RAM_BIT_SHIFT_MASK"\)', repl='#define BINARY_OP_EXPR_SHIFT(ty, op) BINARY_OP_EXPR_EX(ty, op, "")', expect=r'functors\.synth\.U?BSHIFT'),
    dict(name='interp BSHIFT_R logical instead of arithmetic', file=ENGINE, find=r'BINARY_OP_INTEGRAL_SHIFT\(BSHIFT_R         , >>, RamSigned  , RamUnsigned\)', repl='BINARY_OP_INTEGRAL_SHIFT(BSHIFT_R         , >>, RamUnsigned, RamUnsigned)', expect=r'functors\.interp\.BSHIFT_R '),
    dict(name='interp std::min <-> std::max', file=ENGINE, find=r'MINMAX_NUMERIC\(MAX, std::max\)\s*MINMAX_NUMERIC\(MIN, std::min\)', repl='MINMAX_NUMERIC(MAX, std::min)\n                MINMAX_NUMERIC(MIN, std::max)', expect=r'functors\.interp\.U?F?M(AX|IN)'),
    dict(name='synth UDIV emitted signed', file=SYNTH, find=r'#define BINARY_OP_INTEGRAL\(opcode, op\)\s*\\\s*case FunctorOp::   opcode: BINARY_OP_EXPR\(RamSigned  , op\) \\\s*case FunctorOp::U##opcode: BINARY_OP_EXPR\(RamUnsigned, op\)', repl='#define BINARY_OP_INTEGRAL(opcode, op)                         \\\n    case FunctorOp::   opcode: BINARY_OP_EXPR(RamSigned  , op) \\\n    case FunctorOp::U##opcode: BINARY_OP_EXPR(RamSigned, op)', expect=r'functors\.synth\.U(DIV|MOD|MUL|ADD|SUB|BAND|BOR|BXOR)'),
    dict(name='interp ULT compares signed', file=ENGINE, find=r'case BinaryConstraintOp::U##opCode: COMPARE_NUMERIC\(RamUnsigned, op\); \\', repl='case BinaryConstraintOp::U##opCode: COMPARE_NUMERIC(RamSigned, op); \\\\', expect=r'functors\.interpc\.U(LT|LE|GT|GE)'),
    dict(name='interp LXOR as bitwise xor', file=ENGINE, find=r'BINARY_OP_LOGICAL\(LXOR, \+ souffle::evaluator::lxor_infix\(\) \+\)', repl='BINARY_OP_LOGICAL(LXOR, ^)', expect=r'functors\.interp\.U?LXOR'),
    dict(name='interp F2U via signed', file=ENGINE, find=r'UNARY_OP\(F2U, RamFloat   , static_cast<RamUnsigned>\)', repl='UNARY_OP(F2U, RamFloat   , static_cast<RamSigned>)', expect=r'functors\.interp\.F2U'),
    dict(name='lxor: both non-zero gives true', file=EVU, find=r'return \(x \|\| y\) && \(!x != !y\);', repl='return (x || y);', expect=r'functors\.(interp|synth)\.U?LXOR'),
    dict(name='strict->not-equal maps FLT to bitwise NE', file=BCO, find=r'case BinaryConstraintOp::FLT: return BinaryConstraintOp::FNE;', repl='case BinaryConstraintOp::FLT: return BinaryConstraintOp::NE;', expect=r'functors\.tables'),
    dict(name='negation table: LE -> GE', file=BCO, find=r'case BinaryConstraintOp::LE: return BinaryConstraintOp::GT;', repl='case BinaryConstraintOp::LE: return BinaryConstraintOp::GE;', expect=r'functors\.tables'),
    dict(name='synth FEQ emitted as integer compare', file=SYNTH, find=r'case BinaryConstraintOp::F##opCode: COMPARE_NUMERIC\(RamFloat   , op\);\n#define COMPARE\(', repl='case BinaryConstraintOp::F##opCode: COMPARE_NUMERIC(RamDomain   , op);\n#define COMPARE(', expect=r'functors\.synthc\.F(EQ|NE)'),
]
