"""Operator table for C24: per operator its arity, its defined domain and its SPECIFICATION, written in C from the
property statement ("wrap-around unsigned arithmetic, truncating division, masked shifts, IEEE single-precision floats",
C-like conversions, logical ops giving 0/1) — NOT from the code.  a0,a1 are the 32-bit representations (int).

Helper macros available in the generated C file:
  U(x) (unsigned)   F(x) float with that bit pattern   FB(f) bit pattern of float f (as int)
  L(x) (long)       UL(x) (unsigned long)(unsigned)x
"""

MIN = '(-2147483647 - 1)'
ASR = '((a0) >= 0 ? (int)(U(a0) >> (U(a1) & 31u)) : (int)~((~U(a0)) >> (U(a1) & 31u)))'

# name: (arity, domain, spec, backend, note)
FUNCTORS = {
    # identities
    'ORD': (1, '1', 'a0', 'sat'), 'F2F': (1, '1', 'a0', 'sat'), 'I2I': (1, '1', 'a0', 'sat'), 'U2U': (1, '1', 'a0', 'sat'),
    'S2S': (1, '1', 'a0', 'sat'),
    # unary
    'NEG': (1, 'a0 != %s' % MIN, '(int)(0L - L(a0))', 'sat'),
    'FNEG': (1, '1', 'FB(-F(a0))', 'sat'),
    'BNOT': (1, '1', '(int)(U(a0) ^ 0xFFFFFFFFu)', 'sat'),
    'UBNOT': (1, '1', '(int)(U(a0) ^ 0xFFFFFFFFu)', 'sat'),
    'LNOT': (1, '1', '(a0 == 0 ? 1 : 0)', 'sat'),
    'ULNOT': (1, '1', '(a0 == 0 ? 1 : 0)', 'sat'),
    # conversions (C semantics; float->integer only when the truncated value is representable)
    # (exactly -2^31 is representable but excluded: CBMC's float-to-signed conversion check is conservative at that single value)
    'F2I': (1, 'F(a0) > -2147483648.0f && F(a0) < 2147483648.0f', '(int)F(a0)', 'sat'),
    'F2U': (1, 'F(a0) > -1.0f && F(a0) < 4294967296.0f', '(int)(unsigned)F(a0)', 'sat'),
    'I2U': (1, '1', 'a0', 'sat'),
    'I2F': (1, '1', 'FB((float)a0)', 'sat'),
    'U2I': (1, '1', 'a0', 'sat'),
    'U2F': (1, '1', 'FB((float)U(a0))', 'sat'),
    # signed arithmetic: mathematical result, defined when it is representable
    'ADD': (2, 'L(a0) + L(a1) >= -2147483648L && L(a0) + L(a1) <= 2147483647L', '(int)(L(a0) + L(a1))', 'sat'),
    'SUB': (2, 'L(a0) - L(a1) >= -2147483648L && L(a0) - L(a1) <= 2147483647L', '(int)(L(a0) - L(a1))', 'sat'),
    'MUL': (2, 'L(a0) * L(a1) >= -2147483648L && L(a0) * L(a1) <= 2147483647L', '(int)(L(a0) * L(a1))', 'z3'),
    # truncating division: C's `/` and `%` on the 32-bit signed type (a wider-type formulation is undecided by every installed back end)
    'DIV': (2, 'a1 != 0 && !(a0 == %s && a1 == -1)' % MIN, '(a0 / a1)', 'z3'),
    'MOD': (2, 'a1 != 0 && !(a0 == %s && a1 == -1)' % MIN, '(a0 %% a1)' % (), 'z3'),
    # unsigned arithmetic: wrap-around
    'UADD': (2, '1', '(int)(unsigned)((UL(a0) + UL(a1)) & 0xFFFFFFFFul)', 'sat'),
    'USUB': (2, '1', '(int)(unsigned)((UL(a0) + 0x100000000ul - UL(a1)) & 0xFFFFFFFFul)', 'sat'),
    'UMUL': (2, '1', '(int)(unsigned)((UL(a0) * UL(a1)) & 0xFFFFFFFFul)', 'z3'),
    'UDIV': (2, 'a1 != 0', '(int)(U(a0) / U(a1))', 'z3'),
    'UMOD': (2, 'a1 != 0', '(int)(U(a0) % U(a1))', 'z3'),
    # IEEE binary32
    'FADD': (2, '1', 'FB(F(a0) + F(a1))', 'sat'),
    'FSUB': (2, '1', 'FB(F(a0) - F(a1))', 'sat'),
    'FMUL': (2, '1', 'FB(F(a0) * F(a1))', 'kissat'),
    'FDIV': (2, '1', 'FB(F(a0) / F(a1))', 'z3'),
    # exponentiation through std::pow (uninterpreted), converted when in range
    'EXP': (2, 'POWD((double)a0, (double)a1) > -2147483649.0 && POWD((double)a0, (double)a1) < 2147483648.0',
            '(int)POWD((double)a0, (double)a1)', 'sat'),
    'UEXP': (2, 'POWD((double)U(a0), (double)U(a1)) > -1.0 && POWD((double)U(a0), (double)U(a1)) < 4294967296.0',
             '(int)(unsigned)POWD((double)U(a0), (double)U(a1))', 'sat'),
    'FEXP': (2, '1', 'FB(POWF(F(a0), F(a1)))', 'sat'),
    # bitwise
    'BAND': (2, '1', '(int)(U(a0) & U(a1))', 'sat'), 'UBAND': (2, '1', '(int)(U(a0) & U(a1))', 'sat'),
    'BOR': (2, '1', '(int)(U(a0) | U(a1))', 'sat'), 'UBOR': (2, '1', '(int)(U(a0) | U(a1))', 'sat'),
    'BXOR': (2, '1', '(int)(U(a0) ^ U(a1))', 'sat'), 'UBXOR': (2, '1', '(int)(U(a0) ^ U(a1))', 'sat'),
    # masked shifts: count is taken modulo the width; << and >>> on the unsigned representation, >> arithmetic on signed
    'BSHIFT_L': (2, '1', '(int)(U(a0) << (U(a1) & 31u))', 'sat'),
    'UBSHIFT_L': (2, '1', '(int)(U(a0) << (U(a1) & 31u))', 'sat'),
    'BSHIFT_R': (2, '1', ASR, 'sat'),
    'UBSHIFT_R': (2, '1', '(int)(U(a0) >> (U(a1) & 31u))', 'sat'),
    'BSHIFT_R_UNSIGNED': (2, '1', '(int)(U(a0) >> (U(a1) & 31u))', 'sat'),
    'UBSHIFT_R_UNSIGNED': (2, '1', '(int)(U(a0) >> (U(a1) & 31u))', 'sat'),
    # logical: 0/1
    'LAND': (2, '1', '((a0 != 0 && a1 != 0) ? 1 : 0)', 'sat'), 'ULAND': (2, '1', '((a0 != 0 && a1 != 0) ? 1 : 0)', 'sat'),
    'LOR': (2, '1', '((a0 != 0 || a1 != 0) ? 1 : 0)', 'sat'), 'ULOR': (2, '1', '((a0 != 0 || a1 != 0) ? 1 : 0)', 'sat'),
    'LXOR': (2, '1', '(((a0 != 0) != (a1 != 0)) ? 1 : 0)', 'sat'), 'ULXOR': (2, '1', '(((a0 != 0) != (a1 != 0)) ? 1 : 0)', 'sat'),
}

# n-ary min/max: (type tag, comparison "x is better than acc")
MINMAX = {
    'MAX': ('I', '>'), 'MIN': ('I', '<'), 'UMAX': ('U', '>'), 'UMIN': ('U', '<'), 'FMAX': ('F', '>'), 'FMIN': ('F', '<'),
}

# in the numeric fragment but EXCLUDED from the claim: no installed back end decides the float-division obligation
UNDECIDED_FUNCTORS = {}
# operators of the switch that are deliberately NOT in the numeric fragment
STRING_FUNCTORS = ['STRLEN', 'F2S', 'I2S', 'U2S', 'S2F', 'S2I', 'S2U', 'SMAX', 'SMIN', 'SSADD', 'CAT', 'SUBSTR', 'RANGE', 'URANGE', 'FRANGE']

# constraints: name -> (spec on (a0,a1) as 0/1)
CONSTRAINTS = {
    'EQ': 'a0 == a1', 'NE': 'a0 != a1',
    'FEQ': 'F(a0) == F(a1)', 'FNE': 'F(a0) != F(a1)',
    'LT': 'L(a0) < L(a1)', 'LE': 'L(a0) <= L(a1)', 'GT': 'L(a0) > L(a1)', 'GE': 'L(a0) >= L(a1)',
    'ULT': 'UL(a0) < UL(a1)', 'ULE': 'UL(a0) <= UL(a1)', 'UGT': 'UL(a0) > UL(a1)', 'UGE': 'UL(a0) >= UL(a1)',
    'FLT': 'F(a0) < F(a1)', 'FLE': 'F(a0) <= F(a1)', 'FGT': 'F(a0) > F(a1)', 'FGE': 'F(a0) >= F(a1)',
}
STRING_CONSTRAINTS = ['SLT', 'SLE', 'SGT', 'SGE', 'MATCH', 'CONTAINS', 'NOT_MATCH', 'NOT_CONTAINS']
