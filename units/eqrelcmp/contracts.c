/* C28 — EqrelMapComparator: a three-way comparison of the keys, for every pair of domain values */
typedef VX_DOM DOM;
#define RET __CPROVER_return_value
#define INDOM(k) ((long)(DOM)(k) == (k))
int h_cmp(long ka, long kb, int which)
__CPROVER_requires(which >= 0 && which <= 2 && INDOM(ka) && INDOM(kb))
__CPROVER_ensures(which == 0 ==> ((RET < 0) == (ka < kb) && (RET == 0) == (ka == kb) && (RET > 0) == (ka > kb)))
__CPROVER_ensures(which == 1 ==> RET == (ka < kb))
__CPROVER_ensures(which == 2 ==> RET == (ka == kb))
__CPROVER_assigns();
long nondet_long(void); int nondet_int(void);
void harness_cmp(void) {
    long in_ka = nondet_long(), in_kb = nondet_long(); int which = nondet_int();
    h_cmp(in_ka, in_kb, which);
#ifdef VX_CANARY
    __CPROVER_assert(0, "canary: reachable after the call under contract");
#endif
}
