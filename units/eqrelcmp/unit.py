"""C28 (ordering of the sparse->dense map): EqrelMapComparator of UnionFind.h — the three-way comparator behind both B-trees of an
equivalence relation (value -> dense index map, representative -> class cache).  It must be a strict weak order on the key for EVERY pair
of domain values, including pairs further apart than 2^31."""
import os
import re
from vxlib.extract import Source, strip_comments, ExtractError
from vxlib.cbmc import Harness

HERE = os.path.dirname(os.path.abspath(__file__))
UF = 'src/include/souffle/datastructure/UnionFind.h'


def extract(ctx):
    src = Source(os.path.join(ctx.repo, UF))
    blk, _ = src.block(r'template\s*<\s*typename\s+StorePair\s*>\s*struct\s+EqrelMapComparator\s*\{')
    blk = strip_comments(blk)
    text, n = re.subn(r'template\s*<\s*typename\s+StorePair\s*>\s*', '', blk, count=1)
    if n != 1:
        raise ExtractError('EqrelMapComparator: template header not found')
    text, n2 = re.subn(r'\bStorePair\b', 'vx_pair', text)
    ctx.rewrites['R14 textual instantiation EqrelMapComparator<StorePair> at StorePair = std::pair<RamDomain, parent_t> (scaffold struct vx_pair {VX_DOM first; unsigned long second;})'] = n2
    ctx.fact('UnionFind.h: SparseDisjointSet orders its map with EqrelMapComparator<PairStore>, PairStore = std::pair<SparseDomain, parent_t>',
             src.has(r'using\s+PairStore\s*=\s*std::pair<SparseDomain,\s*parent_t>') and src.has(r'EqrelMapComparator<PairStore>'))
    ctx.write('extracted.hpp', '#include <cstdint>\n#include <cstddef>\nnamespace souffle {\nstruct vx_pair { VX_DOM first; unsigned long second; };\n' + text + '\n}\n')
    ctx.dropped.append('LambdaBTreeSet / SparseDisjointSet / EquivalenceRelation themselves (std::function, std::pair, iterators): only the comparator they are ordered by')


def harnesses(ctx):
    cpp = os.path.join(HERE, 'wrappers.cpp')
    c = [os.path.join(HERE, 'contracts.c')]
    hs = []
    for dom, tag in (('int', ''), ('long', '.64')):
        hs.append(Harness('eqrelcmp.order' + tag, 'harness_cmp', cpp=cpp, c=c, enforce='h_cmp', unwind=None, must_have=['postcondition'], defines=['VX_DOM=%s' % dom],
                          clause='EqrelMapComparator (%s-bit domain): sign of operator() agrees with <, ==, > on the keys for every pair of values; less/equal agree with it' % ('32' if dom == 'int' else '64'),
                          funcs=['souffle::EqrelMapComparator::operator()', '...::less', '...::equal']))
    return hs


ASSUMPTIONS = ['the map key type is the RAM domain (32- or 64-bit signed); the second component of the pair never takes part in the order']
TRUSTED = ['scaffold struct vx_pair in place of std::pair']
MUTANTS = [
    dict(name='comparator by narrowed difference', file=UF, find=r'int operator\(\)\(const StorePair& a, const StorePair& b\) \{.*?\n    \}',
         repl='int operator()(const StorePair& a, const StorePair& b) {\n        return static_cast<int>(static_cast<int64_t>(a.first) - static_cast<int64_t>(b.first));\n    }', expect=r'eqrelcmp\.order'),
    dict(name='comparator: sign flipped', file=UF, find=r'(struct EqrelMapComparator \{.*?)return -1;(.*?)return 1;', repl=r'\1return 1;\2return -1;', expect=r'eqrelcmp\.order'),
]


def replay(ctx, h, r, ins, tr):
    """the failing pair of keys, evaluated by the real comparator (real header, std::pair)"""
    import subprocess
    a, b = ins.get('in_ka'), ins.get('in_kb')
    if a is None or b is None:
        return None, 'no key values in the trace'
    wide = h.name.endswith('.64')
    exe = os.path.join(ctx.work, 'replay_cmp' + ('64' if wide else ''))
    src = os.path.join(HERE, '..', '..', 'replay', 'eqrelcmp', 'replay.cpp')
    p = subprocess.run(['g++', '-std=c++17', '-fopenmp'] + (['-DRAM_DOMAIN_SIZE=64'] if wide else []) + ['-I', os.path.join(ctx.repo, 'src/include'), src, '-o', exe], stdout=subprocess.PIPE, stderr=subprocess.STDOUT)
    if p.returncode != 0:
        return None, 'native replay build failed: ' + p.stdout.decode()[-300:]
    q = subprocess.run([exe, str(a), str(b)], stdout=subprocess.PIPE, stderr=subprocess.STDOUT)
    return q.returncode == 1, 'real UnionFind.h: ' + q.stdout.decode().strip()[-300:]
