#include "extracted.hpp"
using namespace souffle;
extern "C" int h_cmp(long ka, long kb, int which) {
    vx_pair a, b; a.first = (VX_DOM)ka; b.first = (VX_DOM)kb; a.second = 1; b.second = 2;
    EqrelMapComparator c;
    if (which == 0) return c(a, b);
    if (which == 1) return c.less(a, b) ? 1 : 0;
    return c.equal(a, b) ? 1 : 0;
}
