"""C28 support: the real souffle::SpinLock (ParallelUtil.h) that serialises PiggyList growth — mutual exclusion under rely/guarantee."""
import os
from vxlib.extract import Source, strip_comments, ExtractError
from vxlib import rewrite as rw
from vxlib.cbmc import Harness

HERE = os.path.dirname(os.path.abspath(__file__))
FILE = 'src/include/souffle/utility/ParallelUtil.h'
NATIVE_PRELUDE = '''#include <atomic>
#include <cstddef>
#include <sched.h>
#define pthread_yield sched_yield
#define cpu_relax() asm volatile("pause\\n" : : : "memory")
'''
WAITER_OVF = (r'operator\(\)\.overflow\.\d+ arithmetic overflow on signed \+ in this->i \+ 1', 'plain-int spin counter of detail::Waiter (fewer than 2^31 spins per wait assumed)')


def extract(ctx):
    src = Source(os.path.join(ctx.repo, FILE))
    log = {}
    waiter, _ = src.block(r'\bclass\s+Waiter\s*\{')
    spin, _ = src.block(r'\bclass\s+SpinLock\s*\{')
    ctx.fact('ParallelUtil.h: the extracted SpinLock is the parallel definition (atomic lock word)', 'std::atomic<int> lck' in spin)
    raw = 'namespace souffle {\nnamespace detail {\n' + strip_comments(waiter) + '\n}\n' + strip_comments(spin) + '\n}\n'
    ctx.write('raw.hpp', raw)
    ctx.write('native.cpp', NATIVE_PRELUDE + '#include "raw.hpp"\n')
    docs = rw.clang_ast('native.cpp', 'souffle', ctx.work)
    mod = rw.loop_modified(docs, raw, 'lock', 0)
    log['loop lock.0 modified set (clang)'] = mod
    # the hook havocs the Waiter object, whatever it is called
    if len(mod) != 1:
        raise ExtractError('SpinLock::lock loop modifies %s, the hook havocs the Waiter only' % mod)
    text = rw.r9_hooks(raw, [dict(func=r'void\s+lock\s*\(\s*\)\s*\{', name='spin_lock', k=0, args='(int*)&' + mod[0])], log)
    text = rw.r3_default(text, log)
    text = rw.r4b_nsdmi(text, 'Waiter', log)
    text = rw.r4b_nsdmi(text, 'SpinLock', log)
    text = rw.r11_access(text, log)
    ctx.write('extracted.hpp', text)
    ctx.rewrites.update(log)


def harnesses(ctx):
    cpp = os.path.join(HERE, 'wrappers.cpp')
    c = [os.path.join(HERE, 'contracts.c')]
    hs = []
    for fn, clause, mh in (('lock', 'lock(): on return this thread is THE owner and it became so when the lock word was free', ['invariant base', 'invariant step']),
                           ('try_lock', 'try_lock(): true iff this thread became the owner (weak CAS may fail spuriously: then no effect)', []),
                           ('unlock', 'unlock(): releases; only the owner calls it', [])):
        hs.append(Harness('spin.' + fn, 'harness_' + fn, cpp=cpp, c=c, enforce='h_spin_' + fn, must_have=['postcondition', 'G\\.'] + mh, exclude=[WAITER_OVF],
                          clause=clause, funcs=['souffle::SpinLock::' + fn]))
    hs.append(Harness('spin.construct', 'harness_construct', cpp=cpp, c=c, must_have=['construct'], clause='a new SpinLock is free', funcs=['souffle::SpinLock::SpinLock()']))
    hs.append(Harness('spin.lemmas', 'lemma_rg', c=c, unwind=None, must_have=['lemma'], clause='rely reflexive/transitive, guarantee within rely, ownership stable'))
    return hs


ASSUMPTIONS = ['sequential consistency', 'rely/guarantee composition; lock() progress under contention is not claimed', 'fewer than 2^31 spins per wait']
TRUSTED = ['stubs/atomic', 'rewrite rules R3,R4b,R9,R11']
MUTANTS = [
    dict(name='SpinLock::unlock stores 1', file=FILE, find=r'lck\.store\(0, std::memory_order_release\);', repl='lck.store(1, std::memory_order_release);', expect=r'spin\.unlock'),
    dict(name='SpinLock::try_lock expects 1', file=FILE, find=r'(bool try_lock\(\) \{\s*int should = )0;', repl=r'\g<1>1;', expect=r'spin\.(try_lock|lock)'),
]
