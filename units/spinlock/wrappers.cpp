#include <atomic>
#include <cstddef>
extern "C" { void vx_enter_spin_lock_0(void); bool vx_head_spin_lock_0(int* wait_i); }
#define pthread_yield() ((void)0)
#define cpu_relax() ((void)0)
#include "extracted.hpp"
using namespace souffle;
extern "C" {
void h_spin_lock(void* l) { ((SpinLock*)l)->lock(); }
bool h_spin_try_lock(void* l) { return ((SpinLock*)l)->try_lock(); }
void h_spin_unlock(void* l) { ((SpinLock*)l)->unlock(); }
int h_spin_construct(void) { SpinLock l; return l.lck.v; }
}
