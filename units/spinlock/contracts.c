/* real souffle::SpinLock: lock word S.lck (0 free, 1 held), ghost owner (0 none).  INV: lck == (owner != 0). */
#define SELF 1
struct st { int lck; int owner; };
struct { struct st s; struct st at; unsigned nchg; _Bool first; } S;
int nondet_int(void); _Bool nondet_bool(void);
_Bool vx_nondet_bool(void) { return nondet_bool(); }
static _Bool INV(struct st s) { return (s.lck == 0 || s.lck == 1) && ((s.lck == 1) == (s.owner != 0)); }
static _Bool rely(int self, struct st a, struct st b) {
    if (!INV(b)) return 0;
    if (a.owner == self) return b.lck == a.lck && b.owner == a.owner;    /* nobody releases or takes my lock */
    return b.owner != self;                                                /* nobody makes me the owner */
}
static int mon_step(int self, struct st *s, int o, int n) {
    if (n == o) return 0;
    if (o == 0 && n == 1) { if (s->owner != 0) return 1; s->owner = self; s->lck = 1; return 0; }
    if (o == 1 && n == 0) { if (s->owner != self) return 2; s->owner = 0; s->lck = 0; return 0; }
    return 3;
}
void vx_yield(void) { struct st b; __CPROVER_assume(rely(SELF, S.s, b)); S.s = b; }
void vx_step(void *obj, int kind, unsigned long oldv, unsigned long newv) {
    int o = (int)oldv, n = (int)newv; (void)kind;
    __CPROVER_assert(obj == (void *)&S.s.lck, "atomic operation is on the lock word");
    struct st t = S.s; t.lck = o; S.at = t;
    int code = mon_step(SELF, &t, o, n);
    __CPROVER_assert(code != 1, "G.acquire: taken only when free");
    __CPROVER_assert(code != 2, "G.release: only the owner releases");
    __CPROVER_assert(code != 3, "G.shape: the lock word only moves 0->1 or 1->0");
    if (code == 0) { S.s = t; if (n != o && S.nchg < 3) S.nchg++; }
    __CPROVER_assert(INV(S.s), "INV after own step");
}
static _Bool I_lock(void) { return INV(S.s) && S.s.owner != SELF && S.nchg == 0; }
void vx_enter_spin_lock_0(void) { S.first = 1; }
_Bool vx_head_spin_lock_0(int *wait_i) {
    if (S.first) {
        __CPROVER_assert(I_lock(), "loop spin_lock.0 invariant base");
        struct st b; S.s = b; *wait_i = nondet_int();
        __CPROVER_assume(I_lock());
        S.first = 0;
    } else {
        __CPROVER_assert(I_lock(), "loop spin_lock.0 invariant step");
        __CPROVER_assume(0);
    }
    return 1;
}
#define PRE (l == (void *)&S.s.lck && INV(S.s) && S.nchg == 0)
void h_spin_lock(void *l) __CPROVER_requires(PRE && S.s.owner != SELF)
__CPROVER_ensures(S.s.owner == SELF && S.s.lck == 1 && S.at.owner == 0 && S.nchg == 1 && INV(S.s)) __CPROVER_assigns(S);
_Bool h_spin_try_lock(void *l) __CPROVER_requires(PRE && S.s.owner != SELF)
__CPROVER_ensures(__CPROVER_return_value == (S.s.owner == SELF) && (__CPROVER_return_value ? (S.at.owner == 0 && S.nchg == 1) : S.nchg == 0) && INV(S.s)) __CPROVER_assigns(S);
void h_spin_unlock(void *l) __CPROVER_requires(PRE && S.s.owner == SELF)
__CPROVER_ensures(S.s.owner != SELF && S.nchg == 1 && S.at.owner == SELF && INV(S.s)) __CPROVER_assigns(S);
int h_spin_construct(void);
#ifdef VX_CANARY
#define CANARY __CPROVER_assert(0, "canary: reachable after the call under contract")
#else
#define CANARY
#endif
static void init(void) { struct st b; S.s = b; S.at = b; S.nchg = 0; S.first = 0; }
void harness_lock(void) { init(); h_spin_lock(&S.s.lck); CANARY; }
void harness_try_lock(void) { init(); h_spin_try_lock(&S.s.lck); CANARY; }
void harness_unlock(void) { init(); h_spin_unlock(&S.s.lck); CANARY; }
void harness_construct(void) { __CPROVER_assert(h_spin_construct() == 0, "construct: a new SpinLock is free"); CANARY; }
void lemma_rg(void) {
    struct st a, b, c; int t1 = nondet_int(), t2 = nondet_int(), n = nondet_int();
    __CPROVER_assume(t1 != 0 && t2 != 0 && t1 != t2 && INV(a));
    __CPROVER_assert(rely(t1, a, a), "lemma: R reflexive");
    if (rely(t1, a, b) && rely(t1, b, c)) __CPROVER_assert(rely(t1, a, c), "lemma: R transitive");
    if (rely(t1, a, b)) __CPROVER_assert((a.owner == t1) == (b.owner == t1), "lemma: owning / not owning is stable under R");
    struct st s = a; if (mon_step(t1, &s, a.lck, n) == 0) { __CPROVER_assert(INV(s), "lemma: allowed step keeps INV"); __CPROVER_assert(rely(t2, a, s), "lemma: G(t1) within R(t2)"); }
    CANARY;
}
