#include <cstddef>
#ifdef VX_KEY2
#include "extracted_key2.hpp"
#else
#include "extracted_int.hpp"
#endif
using namespace souffle::detail;
extern "C" {
#ifdef VX_KEY2
bool vx_lt(const void* a, const void* b) { return *(const VX_ELT*)a < *(const VX_ELT*)b; }
bool vx_eq(const void* a, const void* b) { return *(const VX_ELT*)a == *(const VX_ELT*)b; }
#endif
int h_comparator(const void* pa, const void* pb, int which) {
    comparator<VX_ELT> c; VX_ELT a = *(const VX_ELT*)pa, b = *(const VX_ELT*)pb;
    if (which == 0) return c(a, b);
    if (which == 1) return c.less(a, b) ? 1 : 0;
    return c.equal(a, b) ? 1 : 0;
}
#define W(S, F) const void* h_##S##__##F(const void* k, const void* a, const void* b) { VX_COMP comp; return S##__##F(*(const VX_ELT*)k, (const VX_ELT*)a, (const VX_ELT*)b, comp); }
W(linear_search, lower_bound) W(linear_search, upper_bound) W(linear_search, call)
W(binary_search, lower_bound) W(binary_search, upper_bound) W(binary_search, call)
}
