#include <cstddef>
#include "extracted.hpp"
using namespace souffle::detail;
extern "C" {
int h_comparator(int a, int b, int which) {
    comparator<int> c;
    if (which == 0) return c(a, b);
    if (which == 1) return c.less(a, b) ? 1 : 0;
    return c.equal(a, b) ? 1 : 0;
}
#define W(S, F) const int* h_##S##__##F(const int* k, const int* a, const int* b) { vx_comp_int comp; return S##__##F(*k, a, b, comp); }
W(linear_search, lower_bound) W(linear_search, upper_bound) W(linear_search, call)
W(binary_search, lower_bound) W(binary_search, upper_bound) W(binary_search, call)
}
