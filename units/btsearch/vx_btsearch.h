// Comparator wrapper (TRUSTED): forwards to the REAL souffle::detail::comparator<int> and tells the contract file which
// node element was compared, so that the sortedness precondition can be instantiated for that element.
#ifndef VX_BTSEARCH_H
#define VX_BTSEARCH_H
#ifdef VX_KEY2
// two-column key with the relational operators std::array provides (lexicographic)
struct vx_key2 { int c[2]; };
inline bool operator<(const vx_key2& a, const vx_key2& b) { return a.c[0] < b.c[0] || (a.c[0] == b.c[0] && a.c[1] < b.c[1]); }
inline bool operator>(const vx_key2& a, const vx_key2& b) { return b < a; }
inline bool operator==(const vx_key2& a, const vx_key2& b) { return a.c[0] == b.c[0] && a.c[1] == b.c[1]; }
#define VX_ELT vx_key2
#define VX_COMP vx_comp_key2
#else
#define VX_ELT int
#define VX_COMP vx_comp_int
#endif
extern "C" {
void vx_touch(const void* x, const void* y);
void vx_enter_linear_search__lower_bound_0(void); bool vx_head_linear_search__lower_bound_0(const void** c, const void* a, const void* b);
void vx_enter_linear_search__upper_bound_0(void); bool vx_head_linear_search__upper_bound_0(const void** c, const void* a, const void* b);
void vx_enter_binary_search__lower_bound_0(void); bool vx_head_binary_search__lower_bound_0(const void** a, const void** c, long* count, const void* b);
void vx_enter_binary_search__upper_bound_0(void); bool vx_head_binary_search__upper_bound_0(const void** a, const void** c, long* count, const void* b);
void vx_enter_binary_search__call_0(void); bool vx_head_binary_search__call_0(const void** a, const void** c, long* count, const void* b);
}
struct VX_COMP {
    souffle::detail::comparator<VX_ELT> real;
    int operator()(const VX_ELT& x, const VX_ELT& y) const {
        vx_touch(&x, &y);
        return real(x, y);
    }
};
#endif
