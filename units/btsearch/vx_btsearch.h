// Comparator wrapper (TRUSTED): forwards to the REAL souffle::detail::comparator<int> and tells the contract file which
// node element was compared, so that the sortedness precondition can be instantiated for that element.
#ifndef VX_BTSEARCH_H
#define VX_BTSEARCH_H
extern "C" {
void vx_touch(const int* x, const int* y);
void vx_enter_linear_search__lower_bound_0(void); bool vx_head_linear_search__lower_bound_0(const int** c, const int* a, const int* b);
void vx_enter_linear_search__upper_bound_0(void); bool vx_head_linear_search__upper_bound_0(const int** c, const int* a, const int* b);
void vx_enter_binary_search__lower_bound_0(void); bool vx_head_binary_search__lower_bound_0(const int** a, const int** c, long* count, const int* b);
void vx_enter_binary_search__upper_bound_0(void); bool vx_head_binary_search__upper_bound_0(const int** a, const int** c, long* count, const int* b);
void vx_enter_binary_search__call_0(void); bool vx_head_binary_search__call_0(const int** a, const int** c, long* count, const int* b);
}
struct vx_comp_int {
    souffle::detail::comparator<int> real;
    int operator()(const int& x, const int& y) const {
        vx_touch(&x, &y);
        return real(x, y);
    }
};
#endif
