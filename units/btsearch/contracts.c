/* C25 (partial) — in-node search of a sorted B-tree node.  Node = g_A[0..g_n), sorted (duplicates allowed); key = g_key.
 * g_g is a GHOST INDEX: arbitrary in [0, g_n), never constrained — a statement about A[g_g] is a statement about every element. */
#include <stddef.h>
#include <stdlib.h>
const int *g_A; unsigned long g_n; int g_key; unsigned long g_g;
_Bool f_ll, f_lu, f_bl, f_bu, f_bc; long v_ll, v_lu, v_bl, v_bu, v_bc;    /* hook flags and recorded variants */
int nondet_int(void); unsigned long nondet_ulong(void); long nondet_long(void);

/* sortedness precondition, instantiated for the pair (touched element, ghost element) */
void vx_touch(const int *x, const int *y) {
    const int *p = (x == &g_key) ? y : x;
    __CPROVER_assert((x == &g_key) != (y == &g_key), "comparator is applied to the key and a node element");
    __CPROVER_assert(__CPROVER_same_object(p, g_A) && p >= g_A && p < g_A + g_n, "comparator reads inside the node");
    unsigned long i = (unsigned long)(p - g_A);
    __CPROVER_assume(i <= g_g ? g_A[i] <= g_A[g_g] : g_A[g_g] <= g_A[i]);
}

#define IDX(p) ((long)((p) - g_A))
#define INSIDE(p) (__CPROVER_same_object((p), g_A) && (p) >= g_A && (p) <= g_A + g_n)
#define G ((long)g_g)
#define AG (g_A[g_g])

/* ---- linear_search ---- */
static _Bool I_ll(const int *c) { return INSIDE(c) && (G < IDX(c) ? AG < g_key : 1); }
static _Bool I_lu(const int *c) { return INSIDE(c) && (G < IDX(c) ? AG <= g_key : 1); }
#define LHOOK(NAME, F, V, I)                                                                   \
void vx_enter_linear_search__##NAME##_0(void) { F = 1; }                                        \
_Bool vx_head_linear_search__##NAME##_0(const int **c, const int *a, const int *b) {            \
    __CPROVER_assert(a == g_A && b == g_A + g_n, "loop linear_search." #NAME ": bounds are the node");  \
    if (F) {                                                                                    \
        __CPROVER_assert(I(*c), "loop linear_search." #NAME ".0 invariant base");               \
        unsigned long k = nondet_ulong(); __CPROVER_assume(k <= g_n); *c = g_A + k;             \
        __CPROVER_assume(I(*c));                                                                \
        V = (long)g_n - IDX(*c); F = 0;                                                         \
    } else {                                                                                    \
        __CPROVER_assert(I(*c), "loop linear_search." #NAME ".0 invariant step");               \
        __CPROVER_assert((long)g_n - IDX(*c) < V && V > 0, "loop linear_search." #NAME ".0 variant decreases");  \
        __CPROVER_assume(0);                                                                    \
    }                                                                                           \
    return 1;                                                                                   \
}
LHOOK(lower_bound, f_ll, v_ll, I_ll)
LHOOK(upper_bound, f_lu, v_lu, I_lu)

/* ---- binary_search ---- */
static _Bool I_bl(const int *a, long count) { return INSIDE(a) && count >= 0 && count <= (long)g_n && IDX(a) + count <= (long)g_n && (G < IDX(a) ? AG < g_key : 1) && (G >= IDX(a) + count ? AG >= g_key : 1); }
static _Bool I_bu(const int *a, long count) { return INSIDE(a) && count >= 0 && count <= (long)g_n && IDX(a) + count <= (long)g_n && (G < IDX(a) ? AG <= g_key : 1) && (G >= IDX(a) + count ? AG > g_key : 1); }
static _Bool I_bc(const int *a, long count) { return INSIDE(a) && count >= 0 && count <= (long)g_n && IDX(a) + count <= (long)g_n && (G < IDX(a) ? AG < g_key : 1) && (G >= IDX(a) + count ? AG > g_key : 1); }
#define BHOOK(NAME, F, V, I)                                                                   \
void vx_enter_binary_search__##NAME##_0(void) { F = 1; }                                        \
_Bool vx_head_binary_search__##NAME##_0(const int **a, const int **c, long *count, const int *b) { \
    __CPROVER_assert(b == g_A + g_n, "loop binary_search." #NAME ": upper bound is the node end"); \
    if (F) {                                                                                    \
        __CPROVER_assert(I(*a, *count), "loop binary_search." #NAME ".0 invariant base");       \
        unsigned long k = nondet_ulong(), k2 = nondet_ulong(); __CPROVER_assume(k <= g_n && k2 <= g_n); \
        *a = g_A + k; *c = g_A + k2; *count = nondet_long();                                    \
        __CPROVER_assume(I(*a, *count));                                                        \
        V = *count; F = 0;                                                                      \
    } else {                                                                                    \
        __CPROVER_assert(I(*a, *count), "loop binary_search." #NAME ".0 invariant step");       \
        __CPROVER_assert(*count < V && V > 0, "loop binary_search." #NAME ".0 variant decreases"); \
        __CPROVER_assume(0);                                                                    \
    }                                                                                           \
    return 1;                                                                                   \
}
BHOOK(lower_bound, f_bl, v_bl, I_bl)
BHOOK(upper_bound, f_bu, v_bu, I_bu)
BHOOK(call, f_bc, v_bc, I_bc)

/* ------------------------------------------------------------------ contracts */
#define PRE (k == &g_key && a == g_A && b == g_A + g_n && g_g < g_n)
#define RET __CPROVER_return_value
#define RIN (__CPROVER_same_object(RET, g_A) && RET >= g_A && RET <= g_A + g_n)
#define GHOSTS f_ll, f_lu, f_bl, f_bu, f_bc, v_ll, v_lu, v_bl, v_bu, v_bc
#define POST_LB (RIN && (G < IDX(RET) ? AG < g_key : AG >= g_key))
#define POST_UB (RIN && (G < IDX(RET) ? AG <= g_key : AG > g_key))
/* operator(): a position holding the key, or (no element equals the key and) the lower bound */
#define POST_FIND (RIN && ((IDX(RET) < (long)g_n && *RET == g_key) || (G < IDX(RET) ? AG < g_key : AG > g_key)))

const int *h_linear_search__lower_bound(const int *k, const int *a, const int *b) __CPROVER_requires(PRE) __CPROVER_ensures(POST_LB) __CPROVER_assigns(GHOSTS);
const int *h_linear_search__upper_bound(const int *k, const int *a, const int *b) __CPROVER_requires(PRE) __CPROVER_ensures(POST_UB) __CPROVER_assigns(GHOSTS);
/* linear operator() is lower_bound: the position of the FIRST element >= key */
const int *h_linear_search__call(const int *k, const int *a, const int *b) __CPROVER_requires(PRE) __CPROVER_ensures(POST_LB) __CPROVER_assigns(GHOSTS);
const int *h_binary_search__lower_bound(const int *k, const int *a, const int *b) __CPROVER_requires(PRE) __CPROVER_ensures(POST_LB) __CPROVER_assigns(GHOSTS);
const int *h_binary_search__upper_bound(const int *k, const int *a, const int *b) __CPROVER_requires(PRE) __CPROVER_ensures(POST_UB) __CPROVER_assigns(GHOSTS);
const int *h_binary_search__call(const int *k, const int *a, const int *b) __CPROVER_requires(PRE) __CPROVER_ensures(POST_FIND) __CPROVER_assigns(GHOSTS);

int h_comparator(int a, int b, int which)
__CPROVER_requires(which >= 0 && which <= 2)
__CPROVER_ensures(which == 0 ==> ((RET < 0) == (a < b) && (RET == 0) == (a == b) && (RET > 0) == (a > b)))
__CPROVER_ensures(which == 1 ==> RET == (a < b))
__CPROVER_ensures(which == 2 ==> RET == (a == b))
__CPROVER_assigns();

#ifdef VX_CANARY
#define CANARY __CPROVER_assert(0, "canary: reachable after the call under contract")
#else
#define CANARY
#endif
static void node(void) {
    g_n = nondet_ulong(); __CPROVER_assume(g_n >= 1 && g_n <= 4096);
    int *p = malloc(g_n * sizeof(int)); __CPROVER_assume(p != NULL); g_A = p;
    g_key = nondet_int(); g_g = nondet_ulong(); __CPROVER_assume(g_g < g_n);
}
#define HARN(S, F) void harness_##S##_##F(void) { node(); h_##S##__##F(&g_key, g_A, g_A + g_n); CANARY; }
HARN(linear_search, lower_bound) HARN(linear_search, upper_bound) HARN(linear_search, call)
HARN(binary_search, lower_bound) HARN(binary_search, upper_bound) HARN(binary_search, call)
void harness_comparator(void) { h_comparator(nondet_int(), nondet_int(), nondet_int()); CANARY; }
