/* C25 (partial) — in-node search of a sorted B-tree node.  Node = g_A[0..g_n), sorted (duplicates allowed); key = g_key.
 * g_g is a GHOST INDEX: arbitrary in [0, g_n), never constrained — a statement about A[g_g] is a statement about every element. */
#include <stddef.h>
#include <stdlib.h>
#ifdef VX_KEY2
typedef struct { int c[2]; } ELT;
/* element comparisons are evaluated by the C++ unit (operator< / == of the scaffold key type): CBMC 6.11 does not give the C and the
   C++ struct views of the same bytes the same values, so the C side never looks inside an element */
_Bool vx_lt(const void *a, const void *b); _Bool vx_eq(const void *a, const void *b);
#define LT(a, b) vx_lt(&(a), &(b))
#define EQ(a, b) vx_eq(&(a), &(b))
#else
typedef int ELT;
#define LT(a, b) ((a) < (b))
#define EQ(a, b) ((a) == (b))
#endif
#define LE(a, b) (!LT(b, a))
#ifndef VX_NODE_MAX
#define VX_NODE_MAX 64
#endif
const ELT *g_A; unsigned long g_n; unsigned long g_g;
#ifdef VX_KEY2
int g_keyv[2];                       /* storage is plain int: the C side never reads an element through a struct type */
#define g_key (*(ELT *)g_keyv)
#else
ELT g_key;
#endif
_Bool f_ll, f_lu, f_bl, f_bu, f_bc; long v_ll, v_lu, v_bl, v_bu, v_bc;    /* hook flags and recorded variants */
int nondet_int(void); unsigned long nondet_ulong(void); long nondet_long(void);

/* sortedness precondition, instantiated for the pair (touched element, ghost element) */
void vx_touch(const void *x_, const void *y_) {
    const ELT *x = (const ELT *)x_, *y = (const ELT *)y_;
    const ELT *p = (x == &g_key) ? y : x;
    __CPROVER_assert((x == &g_key) != (y == &g_key), "comparator is applied to the key and a node element");
    __CPROVER_assert(__CPROVER_same_object(p, g_A) && p >= g_A && p < g_A + g_n, "comparator reads inside the node");
    unsigned long i = (unsigned long)(p - g_A);
    __CPROVER_assume(i <= g_g ? LE(g_A[i], g_A[g_g]) : LE(g_A[g_g], g_A[i]));
}

#define IDX(p) ((long)((p) - g_A))
#define INSIDE(p) (__CPROVER_same_object((p), g_A) && (p) >= g_A && (p) <= g_A + g_n)
#define G ((long)g_g)
#define AG (g_A[g_g])

/* ---- linear_search ---- */
static _Bool I_ll(const ELT *c) { return INSIDE(c) && (G < IDX(c) ? LT(AG, g_key) : 1); }
static _Bool I_lu(const ELT *c) { return INSIDE(c) && (G < IDX(c) ? LE(AG, g_key) : 1); }
#define LHOOK(NAME, F, V, I)                                                                   \
void vx_enter_linear_search__##NAME##_0(void) { F = 1; }                                        \
_Bool vx_head_linear_search__##NAME##_0(const void **c_, const void *a, const void *b) {            \
    const ELT **c = (const ELT **)c_;            \
    __CPROVER_assert(a == (const void *)g_A && b == (const void *)(g_A + g_n), "loop linear_search." #NAME ": bounds are the node");  \
    if (F) {                                                                                    \
        __CPROVER_assert(I(*c), "loop linear_search." #NAME ".0 invariant base");               \
        unsigned long k = nondet_ulong(); __CPROVER_assume(k <= g_n); *c = g_A + k;             \
        __CPROVER_assume(I(*c));                                                                \
        V = (long)g_n - IDX(*c); F = 0;                                                         \
    } else {                                                                                    \
        __CPROVER_assert(I(*c), "loop linear_search." #NAME ".0 invariant step");               \
        __CPROVER_assert((long)g_n - IDX(*c) < V && V > 0, "loop linear_search." #NAME ".0 variant decreases");  \
        __CPROVER_assume(0);                                                                    \
    }                                                                                           \
    return 1;                                                                                   \
}
LHOOK(lower_bound, f_ll, v_ll, I_ll)
LHOOK(upper_bound, f_lu, v_lu, I_lu)

/* ---- binary_search ---- */
static _Bool I_bl(const ELT *a, long count) { return INSIDE(a) && count >= 0 && count <= (long)g_n && IDX(a) + count <= (long)g_n && (G < IDX(a) ? LT(AG, g_key) : 1) && (G >= IDX(a) + count ? LE(g_key, AG) : 1); }
static _Bool I_bu(const ELT *a, long count) { return INSIDE(a) && count >= 0 && count <= (long)g_n && IDX(a) + count <= (long)g_n && (G < IDX(a) ? LE(AG, g_key) : 1) && (G >= IDX(a) + count ? LT(g_key, AG) : 1); }
static _Bool I_bc(const ELT *a, long count) { return INSIDE(a) && count >= 0 && count <= (long)g_n && IDX(a) + count <= (long)g_n && (G < IDX(a) ? LT(AG, g_key) : 1) && (G >= IDX(a) + count ? LT(g_key, AG) : 1); }
#define BHOOK(NAME, F, V, I)                                                                   \
void vx_enter_binary_search__##NAME##_0(void) { F = 1; }                                        \
_Bool vx_head_binary_search__##NAME##_0(const void **a_, const void **c_, long *count, const void *b) { \
    const ELT **a = (const ELT **)a_, **c = (const ELT **)c_; \
    __CPROVER_assert(b == (const void *)(g_A + g_n), "loop binary_search." #NAME ": upper bound is the node end"); \
    if (F) {                                                                                    \
        __CPROVER_assert(I(*a, *count), "loop binary_search." #NAME ".0 invariant base");       \
        unsigned long k = nondet_ulong(), k2 = nondet_ulong(); __CPROVER_assume(k <= g_n && k2 <= g_n); \
        *a = g_A + k; *c = g_A + k2; *count = nondet_long();                                    \
        __CPROVER_assume(I(*a, *count));                                                        \
        V = *count; F = 0;                                                                      \
    } else {                                                                                    \
        __CPROVER_assert(INSIDE(*a) && *count >= 0 && IDX(*a) + *count <= (long)g_n, "loop binary_search." #NAME ".0 invariant step (window inside the node)"); \
        __CPROVER_assert(I(*a, *count), "loop binary_search." #NAME ".0 invariant step");       \
        __CPROVER_assert(*count < V && V > 0, "loop binary_search." #NAME ".0 variant decreases"); \
        __CPROVER_assume(0);                                                                    \
    }                                                                                           \
    return 1;                                                                                   \
}
BHOOK(lower_bound, f_bl, v_bl, I_bl)
BHOOK(upper_bound, f_bu, v_bu, I_bu)
BHOOK(call, f_bc, v_bc, I_bc)

/* ------------------------------------------------------------------ contracts */
#define PRE (k == (const void *)&g_key && a == (const void *)g_A && b == (const void *)(g_A + g_n) && g_g < g_n)
#define RET __CPROVER_return_value
#define RETP ((const ELT *)__CPROVER_return_value)
#define RIN (__CPROVER_same_object(RETP, g_A) && RETP >= g_A && RETP <= g_A + g_n)
#define GHOSTS f_ll, f_lu, f_bl, f_bu, f_bc, v_ll, v_lu, v_bl, v_bu, v_bc
#define POST_LB (RIN && (G < IDX(RETP) ? LT(AG, g_key) : LE(g_key, AG)))
#define POST_UB (RIN && (G < IDX(RETP) ? LE(AG, g_key) : LT(g_key, AG)))
/* operator(): a position holding the key, or (no element equals the key and) the lower bound */
#define POST_FIND (RIN && ((IDX(RETP) < (long)g_n && EQ(*RETP, g_key)) || (G < IDX(RETP) ? LT(AG, g_key) : LT(g_key, AG))))

const void *h_linear_search__lower_bound(const void *k, const void *a, const void *b) __CPROVER_requires(PRE) __CPROVER_ensures(POST_LB) __CPROVER_assigns(GHOSTS);
const void *h_linear_search__upper_bound(const void *k, const void *a, const void *b) __CPROVER_requires(PRE) __CPROVER_ensures(POST_UB) __CPROVER_assigns(GHOSTS);
/* linear operator() is lower_bound: the position of the FIRST element >= key */
const void *h_linear_search__call(const void *k, const void *a, const void *b) __CPROVER_requires(PRE) __CPROVER_ensures(POST_LB) __CPROVER_assigns(GHOSTS);
const void *h_binary_search__lower_bound(const void *k, const void *a, const void *b) __CPROVER_requires(PRE) __CPROVER_ensures(POST_LB) __CPROVER_assigns(GHOSTS);
const void *h_binary_search__upper_bound(const void *k, const void *a, const void *b) __CPROVER_requires(PRE) __CPROVER_ensures(POST_UB) __CPROVER_assigns(GHOSTS);
const void *h_binary_search__call(const void *k, const void *a, const void *b) __CPROVER_requires(PRE) __CPROVER_ensures(POST_FIND) __CPROVER_assigns(GHOSTS);

#ifdef VX_KEY2
int g_cav[2], g_cbv[2];
#define g_ca (*(ELT *)g_cav)
#define g_cb (*(ELT *)g_cbv)
#else
ELT g_ca, g_cb;
#endif
int h_comparator(const void *pa, const void *pb, int which)
__CPROVER_requires(which >= 0 && which <= 2 && pa == (const void *)&g_ca && pb == (const void *)&g_cb)
__CPROVER_ensures(which == 0 ==> ((RET < 0) == LT(g_ca, g_cb) && (RET == 0) == EQ(g_ca, g_cb) && (RET > 0) == LT(g_cb, g_ca)))
__CPROVER_ensures(which == 1 ==> RET == LT(g_ca, g_cb))
__CPROVER_ensures(which == 2 ==> RET == EQ(g_ca, g_cb))
__CPROVER_assigns();

#ifdef VX_CANARY
#define CANARY __CPROVER_assert(0, "canary: reachable after the call under contract")
#else
#define CANARY
#endif
static void node(void) {
#ifdef VX_KEY2
    /* struct elements: a typed global array (a malloc'ed byte object read through two differently tagged struct types loses the
       connection between the C and the C++ view in CBMC 6.11) */
    static int store[2 * VX_NODE_MAX]; __CPROVER_havoc_object(store);
    g_n = nondet_ulong(); __CPROVER_assume(g_n >= 1 && g_n <= VX_NODE_MAX); g_A = (const ELT *)store;
#else
    g_n = nondet_ulong(); __CPROVER_assume(g_n >= 1 && g_n <= 4096);
    ELT *p = malloc(g_n * sizeof(ELT)); __CPROVER_assume(p != NULL); g_A = p;
#endif
#ifdef VX_KEY2
    g_keyv[0] = nondet_int(); g_keyv[1] = nondet_int();
#else
    { ELT k; g_key = k; }
#endif g_g = nondet_ulong(); __CPROVER_assume(g_g < g_n);
}
#define HARN(S, F) void harness_##S##_##F(void) { node(); h_##S##__##F(&g_key, g_A, g_A + g_n); CANARY; }
HARN(linear_search, lower_bound) HARN(linear_search, upper_bound) HARN(linear_search, call)
HARN(binary_search, lower_bound) HARN(binary_search, upper_bound) HARN(binary_search, call)
#ifdef VX_KEY2
void harness_comparator(void) { g_cav[0] = nondet_int(); g_cav[1] = nondet_int(); g_cbv[0] = nondet_int(); g_cbv[1] = nondet_int(); h_comparator(&g_ca, &g_cb, nondet_int()); CANARY; }
#else
void harness_comparator(void) { ELT a, b; g_ca = a; g_cb = b; h_comparator(&g_ca, &g_cb, nondet_int()); CANARY; }
#endif
