"""C25 (partial): B-tree in-node search strategies of BTreeUtil.h — detail::comparator<T>, linear_search, binary_search
(operator(), lower_bound, upper_bound), instantiated at Key=int, Iter=const int*, Comp = a wrapper around the real comparator<int>."""
import os
import re
from vxlib.extract import Source, strip_comments, ExtractError, blank, match_brace
from vxlib import rewrite as rw
from vxlib.cbmc import Harness

HERE = os.path.dirname(os.path.abspath(__file__))
BU = 'src/include/souffle/datastructure/BTreeUtil.h'
INSTS = {
    'int': dict(Key='int', Iter='const int*', Comp='vx_comp_int', native='',
                clang_iter='const int *'),
    # two-column key compared lexicographically through the REAL comparator<T> (operator< / > / == as std::array provides them)
    'key2': dict(Key='vx_key2', Iter='const vx_key2*', Comp='vx_comp_key2', clang_iter='const vx_key2 *',
                 native='struct vx_key2 { int c[2]; };\n'
                        'inline bool operator<(const vx_key2& a, const vx_key2& b) { return a.c[0] < b.c[0] || (a.c[0] == b.c[0] && a.c[1] < b.c[1]); }\n'
                        'inline bool operator>(const vx_key2& a, const vx_key2& b) { return b < a; }\n'
                        'inline bool operator==(const vx_key2& a, const vx_key2& b) { return a.c[0] == b.c[0] && a.c[1] == b.c[1]; }\n'),
}
INST = INSTS['int']
FNAMES = {'operator()': 'call', 'lower_bound': 'lower_bound', 'upper_bound': 'upper_bound'}


def members(struct_text):
    """[(name, template_header_span, function text)] for the member function templates of a stateless struct"""
    b = blank(struct_text)
    out = []
    for m in re.finditer(r'template\s*<\s*typename\s+Key\s*,\s*typename\s+Iter\s*,\s*typename\s+Comp\s*>\s*(inline\s+)?Iter\s+(operator\(\)|\w+)\s*\(', b):
        ob = b.find('{', m.end())
        cb = match_brace(b, ob)
        out.append((m.group(2), m.start(), cb + 1))
    return out


def extract(ctx):
    src = Source(os.path.join(ctx.repo, BU))
    log = {}
    comp, _ = src.block(r'template\s*<\s*typename\s+T\s*>\s*struct\s+comparator\s*\{')
    lin, _ = src.block(r'struct\s+linear_search\s*:\s*public\s+search_strategy\s*\{')
    bi, _ = src.block(r'struct\s+binary_search\s*:\s*public\s+search_strategy\s*\{')
    raw = 'namespace souffle {\nnamespace detail {\n' + strip_comments(comp) + '\nstruct search_strategy {};\n' + strip_comments(lin) + '\n' + strip_comments(bi) + '\n}\n}\n'
    ctx.write('raw.hpp', raw)
    # R7 preconditions: the strategy structs are stateless and their members never use `this`
    for name, t in (('linear_search', lin), ('binary_search', bi)):
        bt = blank(strip_comments(t))
        ctx.fact('BTreeUtil.h: %s has no data members and does not use `this` (R7: members are free functions)' % name,
                 re.search(r'\bthis\b', bt) is None and re.search(r'^\s*(?!template|inline|struct|public|private|return|auto|Iter|while|if|\}|\{)[\w:<>]+\s+\w+\s*(=[^;]*)?;\s*$', bt, re.M) is None)
    for tag, I in INSTS.items():
        sub = {}
        instantiate(ctx, raw, comp, tag, I, sub)
        log.update({'[%s] %s' % (tag, k): v for k, v in sub.items()})
    ctx.rewrites.update(log)
    ctx.dropped += ['strategy_selection / default_strategy / updater (type-level selection, no run-time code)',
                    'everything in BTree.h: concurrent insertion, optimistic locking, node splitting, hints, iteration, size, chunking (lambdas, std::vector, 8 template parameters: outside the front end)']


def instantiate(ctx, raw, comp, tag, INST, log):
    inst = ''.join('template %s souffle::detail::%s::%s<%s, %s, %s>(const %s&, %s, %s, %s&) const;\n' %
                   (INST['Iter'], s, f, INST['Key'], INST['Iter'], INST['Comp'], INST['Key'], INST['Iter'], INST['Iter'], INST['Comp'])
                   for s in ('linear_search', 'binary_search') for f in ('operator()', 'lower_bound', 'upper_bound'))
    ctx.write('native_%s.cpp' % tag, '#include <cstddef>\n' + INST['native'] + '#include "raw.hpp"\nstruct %s { souffle::detail::comparator<%s> real; int operator()(const %s& a, const %s& b) const { return real(a, b); } };\n'
              % (INST['Comp'], INST['Key'], INST['Key'], INST['Key']) + inst)
    docs = rw.clang_ast('native_%s.cpp' % tag, 'search', ctx.work)
    text, n_auto = rw.r2_auto(raw, 'raw.hpp', docs, log, extra_types=(INST['clang_iter'],))
    if n_auto < 10:
        raise ExtractError('R2 must fire for every `auto` of the search strategies (fired %d times)' % n_auto)
    # R7 + textual instantiation: hoist every member template to a plain namespace-scope function
    fns = []
    hooks = []
    for sname in ('linear_search', 'binary_search'):
        bt = blank(text)
        m = re.search(r'struct\s+%s\s*:\s*public\s+search_strategy\s*\{' % sname, bt)
        cb = match_brace(bt, m.end() - 1)
        st = text[m.start():cb + 1]
        for fname, s, e in members(st):
            f = st[s:e]
            f = re.sub(r'^template\s*<[^>]*>\s*', '', f)
            f = re.sub(r'\binline\s+', '', f)
            new = '%s__%s' % (sname, FNAMES[fname])
            f = re.sub(r'Iter\s+%s\s*\(' % re.escape(fname), 'Iter %s(' % new, f, count=1)
            f = re.sub(r'\)\s*const\s*\{', ') {', f, count=1)
            # unqualified calls of sibling members
            for other, oname in FNAMES.items():
                if other != 'operator()':
                    f = re.sub(r'(?<![\w:.>])%s\s*\(' % other, '%s__%s(' % (sname, oname), f) if not f.lstrip().startswith('Iter %s__%s(' % (sname, oname)) else \
                        f[:f.index('{')] + re.sub(r'(?<![\w:.>])%s\s*\(' % other, '%s__%s(' % (sname, oname), f[f.index('{'):])
            for k_ in ('Key', 'Iter', 'Comp'):
                f = re.sub(r'\b%s\b' % k_, INST[k_], f)
            fns.append(f)
            log['R7 hoisted %s::%s -> %s (instantiated at Key=%s)' % (sname, fname, new, INST['Key'])] = 1
    body = '\n'.join(fns)
    # order: lower_bound before call (call uses it)
    text2 = ('namespace souffle {\nnamespace detail {\n' + strip_comments(comp) + '\n}\n}\n#include "vx_btsearch.h"\nnamespace souffle {\nnamespace detail {\n' +
             '\n'.join('%s;' % f[:f.index('{')].strip() for f in fns) + '\n' + body + '\n}\n}\n')
    hk = []
    for sname in ('linear_search', 'binary_search'):
        for fn in ('lower_bound', 'upper_bound', 'call'):
            name = '%s__%s' % (sname, fn)
            loops, _ = rw.find_loops(text2, r'const %s\*\s+%s\s*\([^)]*\)\s*\{' % (INST['Key'], name), nth=0)
            if sname == 'linear_search' and fn == 'call':
                if loops:
                    raise ExtractError('linear_search::operator() is expected to delegate to lower_bound')
                continue
            if len(loops) != 1:
                raise ExtractError('%s: expected exactly one loop, found %d' % (name, len(loops)))
            # hook arguments by ROLE (declaration order and declared type), not by name: (k, lo, hi, comp) are the parameters in order,
            # the cursor is the one local of the iterator type, the window length the one integer local the loop modifies
            params, locs = fn_vars(docs, sname, 'operator()' if fn == 'call' else fn)
            if len(params) < 3:
                raise ExtractError('%s: expected the parameters (key, begin, end, comp)' % name)
            lo, hi = params[1][0], params[2][0]
            mods = loop_mod_inst(docs, sname, 'operator()' if fn == 'call' else fn)
            iters = [n_ for n_, t_ in locs if t_.replace(' ', '') == INST['clang_iter'].replace(' ', '')]
            ints = [n_ for n_, t_ in locs if n_ in mods and re.match(r'^(long|int|std::ptrdiff_t|ptrdiff_t|long long)$', t_.strip())]
            if len(iters) != 1 or (sname == 'binary_search' and len(ints) != 1):
                raise ExtractError('%s: cannot identify the cursor / window-length locals (iterator locals %s, integer locals modified by the loop %s)' % (name, iters, ints))
            args = ('(const void**)&%s, %s, %s' % (iters[0], lo, hi)) if sname == 'linear_search' else \
                   ('(const void**)&%s, (const void**)&%s, &%s, %s' % (lo, iters[0], ints[0], hi))
            log['hook arguments of %s (by role)' % name] = args
            hk.append(dict(func=r'const %s\*\s+%s\s*\([^)]*\)\s*\{' % (INST['Key'], name), name=name, k=0, args=args))
    # loop-modified sets from clang (on the member templates' instantiations): everything the loop modifies must be havocked by its hook
    for sname in ('linear_search', 'binary_search'):
        for fn in ('lower_bound', 'upper_bound', 'operator()'):
            if sname == 'linear_search' and fn == 'operator()':
                continue
            mods = loop_mod_inst(docs, sname, fn)
            log['loop %s::%s modified set (clang)' % (sname, fn)] = mods
            h_ = [h for h in hk if h['name'] == '%s__%s' % (sname, FNAMES[fn])][0]
            havocked = set(re.findall(r'&(\w+)', h_['args']))
            if not set(mods) <= havocked:
                raise ExtractError('loop of %s::%s modifies %s, hook havocs %s' % (sname, fn, mods, sorted(havocked)))
    text2 = rw.r9_hooks(text2, hk, log)
    ctx.write('extracted_%s.hpp' % tag, text2)


def fn_vars(docs, sname, fname):
    """([(param, type)], [(local, type)]) of the concrete instantiation of member template sname::fname, in declaration order"""
    found = []

    def visit(n, parents):
        if n.get('kind') == 'CXXMethodDecl' and n.get('name') == fname and any(p.get('name') == sname for p in parents) and \
                'Iter' not in n.get('type', {}).get('qualType', '') and any(c.get('kind') == 'CompoundStmt' for c in n.get('inner', []) or []):
            found.append(n)
    for d in docs:
        rw.walk(d, visit)
    if not found:
        raise ExtractError('clang AST: no instantiation of %s::%s' % (sname, fname))
    params, locs = [], []

    def v(n, parents):
        ty = n.get('type', {}).get('desugaredQualType', n.get('type', {}).get('qualType', ''))
        if n.get('kind') == 'ParmVarDecl' and n.get('name'):
            params.append((n['name'], ty))
        elif n.get('kind') == 'VarDecl' and n.get('name'):
            locs.append((n['name'], ty))
    rw.walk(found[0], v)
    return params, locs


def loop_mod_inst(docs, sname, fname):
    """modified set of the single loop of the concrete instantiation of member template sname::fname"""
    found = []

    def visit(n, parents):
        if n.get('kind') == 'CXXMethodDecl' and n.get('name') == fname and any(p.get('name') == sname for p in parents) and \
                'Iter' not in n.get('type', {}).get('qualType', '') and any(c.get('kind') == 'CompoundStmt' for c in n.get('inner', []) or []):
            found.append(n)
    for d in docs:
        rw.walk(d, visit)
    if not found:
        raise ExtractError('clang AST: no instantiation of %s::%s' % (sname, fname))
    fn = found[0]
    loops = []
    rw.walk(fn, lambda n, p: loops.append(n) if n.get('kind') in ('WhileStmt', 'ForStmt', 'DoStmt') else None)
    if len(loops) != 1:
        raise ExtractError('clang AST: %s::%s has %d loops' % (sname, fname, len(loops)))
    inside, mod = set(), set()

    def v(n, parents):
        if n.get('kind') == 'VarDecl':
            inside.add(n.get('id'))
        if n.get('kind') == 'DeclRefExpr':
            rd = n.get('referencedDecl', {})
            if rd.get('kind') not in ('VarDecl', 'ParmVarDecl'):
                return
            par = parents[-1] if parents else {}
            if par.get('kind') == 'ImplicitCastExpr' and par.get('castKind') == 'LValueToRValue':
                return
            qt = rd.get('type', {}).get('qualType', '')
            if qt.startswith('const ') and not qt.endswith('*'):
                return
            if rd.get('name') in ('comp',):   # the comparator object: stateless wrapper, called through a const operator()
                return
            mod.add((rd.get('id'), rd.get('name')))
    rw.walk(loops[0], v)
    return sorted(n for i, n in mod if i not in inside)


def harnesses(ctx):
    cpp = os.path.join(HERE, 'wrappers.cpp')
    c = [os.path.join(HERE, 'contracts.c')]
    hs = []
    for tag in INSTS:
        hs += harnesses_for(ctx, tag, cpp, c)
    return hs


def harnesses_for(ctx, tag, cpp, c):
    sfx = '' if tag == 'int' else '.' + tag
    D = [] if tag == 'int' else ['VX_KEY2']
    keyname = 'int keys' if tag == 'int' else 'two-column keys compared lexicographically'
    hs = [Harness('btsearch.comparator' + sfx, 'harness_comparator', cpp=cpp, c=c, enforce='h_comparator', unwind=None, must_have=['postcondition'], defines=D,
                  clause='comparator<T>: sign of the three-way result agrees with <, ==, >', funcs=['souffle::detail::comparator<int>::operator()', '...::less', '...::equal'])]
    for s in ('linear_search', 'binary_search'):
        for f, what in (('lower_bound', 'least position whose element is >= key'), ('upper_bound', 'least position whose element is > key'),
                        ('call', 'a position holding the key if there is one, else the lower bound')):
            mh = ['postcondition'] + ([] if (s == 'linear_search' and f == 'call') else ['invariant base', 'invariant step'])
            hs.append(Harness('btsearch.%s.%s%s' % (s, f, sfx), 'harness_%s_%s' % (s, f), cpp=cpp, c=c, enforce='h_%s__%s' % (s, f), unwind=2, must_have=mh, defines=D,
                              replace=(['h_dummy'] if False else []),
                              clause='[' + keyname + '] ' + '%s::%s on every sorted node (duplicates allowed) and every key: %s; result within [a,b]; nothing written; terminates (variant)' % (s, 'operator()' if f == 'call' else f, what),
                              funcs=['souffle::detail::%s::%s' % (s, 'operator()' if f == 'call' else f)]))
    return hs


ASSUMPTIONS = [
    'node-local only: the claim is the search lemma that find/contains/lower_bound/upper_bound/insert descent depend on; concurrency, locking, splits, hints, iteration order, size and chunking of BTree.h are NOT covered',
    'instantiation Key=int, Iter=const int*, comparator<int> (the real three-way comparator); other key types assumed to provide a comparator consistent with a total pre-order',
    'sortedness of the node is used as instances for the pairs (ghost index, touched element) — sound instantiation of the universally quantified precondition',
]
TRUSTED = ['units/btsearch/vx_btsearch.h (comparator wrapper that records the touched element)', 'rewrite rules R2,R7(+textual instantiation),R9']

MUTANTS = [
    dict(name='binary lower_bound: count -= step', file=BU, find=r'(Iter lower_bound\(const Key& k, Iter a, Iter b, Comp& comp\) const \{\s*Iter c;.*?count -= step) \+ 1;', repl=r'\1;', expect=r'btsearch\.binary_search\.lower_bound'),
    dict(name='binary upper_bound: >= -> >', file=BU, find=r'if \(comp\(k, \*c\) >= 0\)', repl='if (comp(k, *c) > 0)', expect=r'btsearch\.binary_search\.upper_bound'),
    dict(name='linear upper_bound: > -> >=', file=BU, find=r'if \(comp\(\*c, k\) > 0\) \{', repl='if (comp(*c, k) >= 0) {', expect=r'btsearch\.linear_search\.upper_bound'),
    dict(name='binary operator(): r<0 branch keeps a', file=BU, find=r'(if \(r < 0\) \{\s*)a = \+\+c;', repl=r'\1++c;', expect=r'btsearch\.binary_search\.call'),
    dict(name='comparator: sign flipped', file=BU, find=r'return \(a > b\) - \(a < b\);', repl='return (a < b) - (a > b);', expect=r'btsearch\.comparator'),
    dict(name='linear lower_bound: returns c+1', file=BU, find=r'(auto r = comp\(\*c, k\);\s*if \(r >= 0\) \{\s*return c)', repl=r'\1 + 1', expect=r'btsearch\.linear_search\.(lower_bound|call)'),
    # (an equivalent mutant — `step = count >> 2` — is correctly NOT flagged: the result is still the lower bound)
]
