/* C28 (storage) — PiggyList<unsigned long> / RandomInsertPiggyList<unsigned long>: addressing and growth.
 * Representation invariant of PiggyList (INV_PL), with BS = BLOCKSIZE = 2^16:
 *    blocks 0..nc-1 are allocated, block i has BS << i cells;  container_size = BS * (2^nc - 1);  allocsize = BS << nc
 * Addressing: index + BS = (BS << bn) + bi  with  bi < BS << bn   (so (bn, bi) is a bijection of the index). */
#include <stddef.h>
#include <stdlib.h>
#include <stdint.h>

#define BB 16ul
#define BS (1ul << BB)
#define MAXNC 15ul               /* index + BS < 2^31  =>  block numbers 0..14 */

struct PL { unsigned long BLOCKBITS, BLOCKSIZE, num_containers, allocsize, container_size, m_size; unsigned long *blk[64]; int sl; };
struct RI { unsigned long BLOCKBITS, INITIALBLOCKSIZE, numElements; unsigned long *blk[64]; int slock; };
struct PL g_pl; struct RI g_ri;
unsigned long in_index, in_bn, in_k, in_val;
unsigned long g_nc0; unsigned long *g_blk0_k; unsigned long g_size0;
_Bool first_cn, first_ap;
int nondet_int(void); unsigned long nondet_ulong(void); _Bool nondet_bool(void);
_Bool vx_nondet_bool(void) { return nondet_bool(); }

/* operator new[]: a fresh object of the requested size, or no return (std::bad_alloc ends the path) */
void *vx_new_array(unsigned long n, unsigned long sz) { void *p = malloc(n * sz); __CPROVER_assume(p != NULL); return p; }
int g_owner;                       /* ghost: who holds the growth lock (0 nobody, 1 this thread, 2 another thread) */
unsigned long g_own_idx; unsigned g_own_adds;   /* this thread's own fetch_add on m_size: value before, count */
#define SELF 1
static _Bool INV_PL(void);
static _Bool WINV(void);
static _Bool BLOCK_OK(unsigned long k, unsigned long nc);
#ifdef VX_CONC
/* R: what other threads may do between two of this thread's atomic steps */
void vx_yield(void) {
    struct PL a = g_pl; int ow = g_owner;
#ifdef VX_RI
    /* RandomInsertPiggyList: others count their own insertions and may install the block this thread needs (when nobody holds the lock
       against them); an installed block is never replaced; the cell of THIS thread's index is not written by others (indices are unique) */
    unsigned long ne = nondet_ulong(); __CPROVER_assume(ne >= g_ri.numElements); g_ri.numElements = ne;
    if (g_owner == SELF) return;
    g_owner = nondet_bool() ? 0 : 2;
    if (in_bn < 64 && g_ri.blk[in_bn] == NULL && nondet_bool()) { unsigned long *b = malloc((BS << in_bn) * sizeof(unsigned long)); __CPROVER_assume(b != NULL); g_ri.blk[in_bn] = b; }
    return;
#endif
    unsigned long ms = nondet_ulong(), nc = nondet_ulong(), cs = nondet_ulong(), as = nondet_ulong(); unsigned long *nb = g_pl.blk[in_k < 64 ? in_k : 0];
    __CPROVER_assume(ms >= a.m_size && ms < (1ul << 31) - BS - 1);     /* sizes only grow (bounded as in the sequential contract) */
    g_pl.m_size = ms;
    if (ow == SELF) return;                                           /* while this thread holds the lock nobody else grows the list */
    g_owner = nondet_bool() ? 0 : 2;
    __CPROVER_assume(nc >= a.num_containers && nc <= MAXNC && cs >= a.container_size);
    if (in_k < 64 && in_k >= a.num_containers && in_k < nc) { nb = malloc((BS << in_k) * sizeof(unsigned long)); __CPROVER_assume(nb != NULL); g_pl.blk[in_k] = nb; }
    g_pl.num_containers = nc; g_pl.container_size = cs; g_pl.allocsize = as;
    __CPROVER_assume(g_owner == 0 ? INV_PL() : WINV());               /* free lock => quiescent state; held by another => any intermediate state */
}
/* SpinLock::lock / unlock as proved in unit `spinlock`: lock returns only after acquiring at an instant when the lock was free */
void vx_lock(void) { __CPROVER_assert(g_owner != SELF, "lock: not re-entered"); vx_yield(); __CPROVER_assume(g_owner == 0); g_owner = SELF; }
void vx_unlock(void) {
    __CPROVER_assert(g_owner == SELF, "unlock: held");
#ifndef VX_RI
    __CPROVER_assert(INV_PL(), "G.unlock: the growth lock is released only in a quiescent state (INV_PL)");
#endif
    g_owner = 0;
}
void vx_step(void *obj, int kind, unsigned long o, unsigned long n) {
    (void)kind;
    if (obj == (void *)&g_pl.m_size) {
        __CPROVER_assert(n == o || n == o + 1, "G.size: m_size changes only by +1");
        if (n != o) { g_own_idx = o; if (g_own_adds < 3) g_own_adds++; }
    } else if (obj == (void *)&g_pl.num_containers || obj == (void *)&g_pl.container_size) {
        if (n != o) {
            __CPROVER_assert(g_owner == SELF, "G.grow: num_containers / container_size are written only under the growth lock");
            __CPROVER_assert(n > o, "G.grow: growth only");
            __CPROVER_assert(WINV(), "G.order: every intermediate state visible to lock-free readers satisfies WINV (block stored before the counters cover it)");
            __CPROVER_assert(BLOCK_OK(in_k, g_pl.num_containers), "G.order: a block counted by num_containers is allocated");
        }
    } else if (obj == (void *)&g_ri.numElements) {
        __CPROVER_assert(n == o || n == o + 1, "G.count: numElements changes only by +1");
        if (n != o && g_own_adds < 3) g_own_adds++;
    } else if (in_bn < 64 && obj == (void *)&g_ri.blk[in_bn]) {
        if (n != o) {
            __CPROVER_assert(o == 0, "G.block: a block pointer is written only while it is null (an allocated block is never replaced)");
            __CPROVER_assert(g_owner == SELF, "G.block: a block is installed only under the lock");
            __CPROVER_assert(n != 0, "G.block: a block pointer never goes back to null");
        }
    } else __CPROVER_assert(0, "atomic operation on an unexpected object");
}
#else
void vx_lock(void) { __CPROVER_assert(g_owner != SELF, "lock: not re-entered"); g_owner = SELF; }
void vx_unlock(void) { __CPROVER_assert(g_owner == SELF, "unlock: held"); g_owner = 0; }
/* sequential harnesses: the environment is silent */
void vx_yield(void) {}
void vx_step(void *obj, int kind, unsigned long o, unsigned long n) { (void)obj; (void)kind; (void)o; (void)n; }
#endif

static _Bool INV_PL(void) {
    return g_pl.BLOCKBITS == BB && g_pl.BLOCKSIZE == BS && g_pl.num_containers <= MAXNC &&
           g_pl.container_size == BS * ((1ul << g_pl.num_containers) - 1) && g_pl.allocsize == (BS << g_pl.num_containers);
}
/* what a lock-free reader may observe while another thread grows the list: the counters lag behind by at most one step,
   in the order  blk[nc] = new ; nc += 1 ; cs += allocsize ; allocsize <<= 1 */
static _Bool WINV(void) {
    unsigned long nc = g_pl.num_containers, cs = g_pl.container_size;
    return g_pl.BLOCKBITS == BB && g_pl.BLOCKSIZE == BS && nc <= MAXNC &&
           (cs == BS * ((1ul << nc) - 1) || (nc >= 1 && cs == BS * ((1ul << (nc - 1)) - 1)));
}
/* block in_k (ghost index) is allocated with the right size if it is below nc */
static _Bool BLOCK_OK(unsigned long k, unsigned long nc) {
    return k >= nc || (__CPROVER_r_ok(g_pl.blk[k], (BS << k) * sizeof(unsigned long)) && __CPROVER_w_ok(g_pl.blk[k], (BS << k) * sizeof(unsigned long)));
}
/* (bn, bi) decomposition of an index */
static _Bool DECOMP(unsigned long index, unsigned long bn) { return bn <= MAXNC && (BS << bn) <= index + BS && index + BS < (BS << (bn + 1)); }

/* ------------------------------------------------------------------ contracts */
unsigned long *h_pl_get(void *p, unsigned long index)
/* WINV (what a lock-free reader may see during another thread's growth) is enough: INV_PL implies it */
__CPROVER_requires(p == (void *)&g_pl && WINV() && BLOCK_OK(in_k, g_pl.num_containers) && index < g_pl.container_size && index + BS < (1ul << 31))
__CPROVER_requires(in_bn < 64 && DECOMP(index, in_bn))
__CPROVER_ensures(in_bn < g_pl.num_containers)
__CPROVER_ensures(__CPROVER_return_value == g_pl.blk[in_bn] + (index + BS - (BS << in_bn)))
__CPROVER_ensures(index + BS - (BS << in_bn) < (BS << in_bn))
__CPROVER_assigns();

#ifdef VX_CONC
/* under interference: the index returned is this thread's own fetch_add value (unique, cf. C22); on return the counters cover it
   (stable: they only grow), the quiescent invariant holds whenever the lock is free, existing blocks were never replaced */
unsigned long h_pl_createNode(void *p)
__CPROVER_requires(p == (void *)&g_pl && g_owner != SELF && (g_owner == 0 ? INV_PL() : WINV()) && g_pl.m_size < (1ul << 31) - BS - 1 && g_own_adds == 0)
__CPROVER_requires(in_k < 64 && g_nc0 == g_pl.num_containers && g_blk0_k == g_pl.blk[in_k] && BLOCK_OK(in_k, g_pl.num_containers))
__CPROVER_ensures(g_own_adds == 1 && __CPROVER_return_value == g_own_idx)
__CPROVER_ensures(g_pl.container_size >= __CPROVER_return_value + 1 && g_owner != SELF && (g_owner == 0 ? INV_PL() : WINV()))
__CPROVER_ensures(g_pl.num_containers >= g_nc0 && (in_k < g_nc0 ==> g_pl.blk[in_k] == g_blk0_k) && BLOCK_OK(in_k, g_pl.num_containers))
__CPROVER_assigns(g_pl, g_owner, g_own_idx, g_own_adds, first_cn, first_ap);
#else
unsigned long h_pl_createNode(void *p)
__CPROVER_requires(p == (void *)&g_pl && INV_PL() && !(g_owner == SELF) && g_pl.m_size < (1ul << 31) - BS - 1 && g_pl.num_containers <= MAXNC)
__CPROVER_requires(g_nc0 == g_pl.num_containers && g_size0 == g_pl.m_size && in_k < 64 && g_blk0_k == g_pl.blk[in_k])
__CPROVER_ensures(__CPROVER_return_value == g_size0 && g_pl.m_size == g_size0 + 1)
__CPROVER_ensures(INV_PL() && !(g_owner == SELF) && g_pl.container_size >= g_size0 + 1 && g_pl.num_containers >= g_nc0)
__CPROVER_ensures(in_k < g_nc0 ==> g_pl.blk[in_k] == g_blk0_k)
__CPROVER_ensures(BLOCK_OK(in_k, g_pl.num_containers) || in_k < g_nc0)
__CPROVER_assigns(g_pl, g_owner, g_own_idx, g_own_adds, first_cn, first_ap);

#endif

unsigned long h_pl_append(void *p, unsigned long e)
__CPROVER_requires(p == (void *)&g_pl && INV_PL() && !(g_owner == SELF) && g_pl.m_size < (1ul << 31) - BS - 1 && g_pl.num_containers <= MAXNC)
__CPROVER_requires(g_nc0 == g_pl.num_containers && g_size0 == g_pl.m_size && in_k < 64 && g_blk0_k == g_pl.blk[in_k])
__CPROVER_requires(BLOCK_OK(in_k, g_pl.num_containers))   /* allocated by the harness */
__CPROVER_requires(in_bn < 64 && DECOMP(g_pl.m_size, in_bn) && in_bn == in_k)   /* the ghost-indexed block is the one the new index addresses */
__CPROVER_ensures(__CPROVER_return_value == g_size0 && g_pl.m_size == g_size0 + 1)
__CPROVER_ensures(INV_PL() && !(g_owner == SELF) && g_pl.container_size >= g_size0 + 1 && g_pl.num_containers >= g_nc0)
__CPROVER_ensures(in_k < g_nc0 ==> g_pl.blk[in_k] == g_blk0_k)
__CPROVER_ensures(in_bn < g_pl.num_containers && g_pl.blk[in_bn][g_size0 + BS - (BS << in_bn)] == e)
__CPROVER_assigns(g_pl, g_owner, g_own_idx, g_own_adds, first_cn, first_ap; in_k < g_pl.num_containers: __CPROVER_object_whole(g_pl.blk[in_k]));

unsigned long *h_ri_get(void *p, unsigned long index)
__CPROVER_requires(p == (void *)&g_ri && g_ri.BLOCKBITS == BB && g_ri.INITIALBLOCKSIZE == BS && index + BS < (1ul << 31))
__CPROVER_requires(in_bn < 64 && DECOMP(index, in_bn))
__CPROVER_ensures(__CPROVER_return_value == g_ri.blk[in_bn] + (index + BS - (BS << in_bn)))
__CPROVER_ensures(index + BS - (BS << in_bn) < (BS << in_bn))
__CPROVER_assigns();

#if defined(VX_CONC) && defined(VX_RI)
/* insertAt under interference: afterwards the block is installed (by this thread or another, never replaced), this thread's cell holds
   the value (cells of distinct indices are distinct: lemma_injective), this thread counted exactly one element */
void h_ri_insertAt(void *p, unsigned long index, unsigned long v)
__CPROVER_requires(p == (void *)&g_ri && g_ri.BLOCKBITS == BB && g_ri.INITIALBLOCKSIZE == BS && index + BS < (1ul << 31) && g_owner != SELF && g_own_adds == 0)
__CPROVER_requires(in_bn < 64 && DECOMP(index, in_bn) && g_blk0_k == g_ri.blk[in_bn])
__CPROVER_requires(g_ri.blk[in_bn] == NULL || (__CPROVER_r_ok(g_ri.blk[in_bn], (BS << in_bn) * sizeof(unsigned long)) && __CPROVER_w_ok(g_ri.blk[in_bn], (BS << in_bn) * sizeof(unsigned long))))
__CPROVER_ensures(g_ri.blk[in_bn] != NULL && g_ri.blk[in_bn][index + BS - (BS << in_bn)] == v)
__CPROVER_ensures(g_own_adds == 1 && g_owner != SELF)
__CPROVER_ensures(g_blk0_k != NULL ==> g_ri.blk[in_bn] == g_blk0_k)
__CPROVER_assigns(g_ri.numElements, g_ri.blk[in_bn], g_owner, g_own_adds; g_ri.blk[in_bn] != NULL: __CPROVER_object_whole(g_ri.blk[in_bn]));
#else
void h_ri_insertAt(void *p, unsigned long index, unsigned long v)
__CPROVER_requires(p == (void *)&g_ri && g_ri.BLOCKBITS == BB && g_ri.INITIALBLOCKSIZE == BS && index + BS < (1ul << 31) && !(g_owner == SELF))
__CPROVER_requires(in_bn < 64 && DECOMP(index, in_bn) && g_size0 == g_ri.numElements)
__CPROVER_requires(g_ri.blk[in_bn] == NULL || __CPROVER_is_fresh(g_ri.blk[in_bn], (BS << in_bn) * sizeof(unsigned long)))
__CPROVER_ensures(g_ri.blk[in_bn] != NULL && g_ri.blk[in_bn][index + BS - (BS << in_bn)] == v)
__CPROVER_ensures(g_ri.numElements == g_size0 + 1 && !(g_owner == SELF))
__CPROVER_ensures(__CPROVER_old(g_ri.blk[in_bn]) != NULL ==> g_ri.blk[in_bn] == __CPROVER_old(g_ri.blk[in_bn]))
__CPROVER_assigns(g_ri.numElements, g_ri.blk[in_bn], g_owner; g_ri.blk[in_bn] != NULL: __CPROVER_object_whole(g_ri.blk[in_bn]));

#endif

unsigned long h_off_pl(int k); unsigned long h_off_ri(int k);

/* ------------------------------------------------------------------ loop hooks: while (container_size < new_index + 1) {...} */
static _Bool I_grow(unsigned long new_index) {
    return INV_PL() && (g_owner == SELF) && g_pl.num_containers >= g_nc0 &&
#ifdef VX_CONC
           g_pl.m_size >= new_index + 1 && g_own_adds == 1 && new_index == g_own_idx && g_pl.m_size < (1ul << 31) - BS - 1 &&
#else
           g_pl.m_size == g_size0 + 1 && new_index == g_size0 &&
#endif
           (in_k < g_nc0 ? g_pl.blk[in_k] == g_blk0_k : 1) && (in_k >= g_nc0 ? BLOCK_OK(in_k, g_pl.num_containers) : 1);
}
#ifdef VX_CONC
#define HAVOC_MSIZE g_pl.m_size = nondet_ulong();
#else
#define HAVOC_MSIZE
#endif
#define HOOK(NAME, FLAG)                                                                                   \
void vx_enter_##NAME##_0(void) { FLAG = 1; }                                                               \
_Bool vx_head_##NAME##_0(void *self, unsigned long new_index) {                                            \
    __CPROVER_assert(self == (void *)&g_pl, "loop " #NAME ".0: operates on the list");                     \
    if (FLAG) {                                                                                            \
        __CPROVER_assert(I_grow(new_index), "loop " #NAME ".0 invariant base");                            \
        /* havoc what the loop changes: num_containers, container_size, allocsize, blocks >= nc0 */        \
        unsigned long nc = nondet_ulong();                                                                 \
        __CPROVER_assume(nc >= g_pl.num_containers && nc <= MAXNC);                                         \
        if (in_k >= g_pl.num_containers && in_k < nc) {                                                    \
            g_pl.blk[in_k] = malloc((BS << in_k) * sizeof(unsigned long));                                 \
            __CPROVER_assume(g_pl.blk[in_k] != NULL);                                                      \
        }                                                                                                  \
        g_pl.num_containers = nc; g_pl.container_size = BS * ((1ul << nc) - 1); g_pl.allocsize = BS << nc; \
        HAVOC_MSIZE                                                                                        \
        __CPROVER_assume(I_grow(new_index));                                                               \
        FLAG = 0;                                                                                          \
    } else {                                                                                               \
        __CPROVER_assert(I_grow(new_index), "loop " #NAME ".0 invariant step");                            \
        __CPROVER_assume(0);                                                                               \
    }                                                                                                      \
    return 1;                                                                                              \
}
HOOK(createNode, first_cn)
HOOK(append, first_ap)

/* ------------------------------------------------------------------ harnesses */
#ifdef VX_CANARY
#define CANARY __CPROVER_assert(0, "canary: reachable after the call under contract")
#else
#define CANARY
#endif
static void any_pl(void) {
    struct PL h; g_pl = h; g_owner = 0; g_own_adds = 0;
    in_index = nondet_ulong(); in_bn = nondet_ulong(); in_k = nondet_ulong(); in_val = nondet_ulong();
    __CPROVER_assume(in_k < 64);
    /* the ghost-indexed block is a real allocation when it is below num_containers */
    if (in_k < g_pl.num_containers && g_pl.num_containers <= MAXNC) {
        g_pl.blk[in_k] = malloc((BS << in_k) * sizeof(unsigned long));
        __CPROVER_assume(g_pl.blk[in_k] != NULL);
    }
    g_nc0 = g_pl.num_containers; g_size0 = g_pl.m_size; g_blk0_k = g_pl.blk[in_k];
}
void harness_get(void) {
    any_pl();
    __CPROVER_assume(in_bn < 64);
    /* the addressed block is the ghost-indexed one (any block: in_k is arbitrary) */
    __CPROVER_assume(in_k == in_bn);
    unsigned long *r = h_pl_get(&g_pl, in_index);
    CANARY;
}
void harness_createNode(void) { any_pl(); h_pl_createNode(&g_pl); CANARY; }
#ifdef VX_CONC
void harness_createNode_conc(void) {
    any_pl(); g_owner = nondet_bool() ? 0 : 2; g_own_adds = 0;
    h_pl_createNode(&g_pl); CANARY;
}
#endif
/* INV_PL => WINV, and the covered index's block number is below num_containers under WINV */
void lemma_winv(void) {
    struct PL h; g_pl = h;
    if (INV_PL()) __CPROVER_assert(WINV(), "lemma: the quiescent invariant implies the readers' invariant");
    unsigned long idx = nondet_ulong(), bn = nondet_ulong();
    __CPROVER_assume(WINV() && idx < g_pl.container_size && bn < 64 && DECOMP(idx, bn));
    __CPROVER_assert(bn < g_pl.num_containers, "lemma: an index covered by container_size lives in an allocated block (WINV)");
    CANARY;
}
void harness_append(void) { any_pl(); __CPROVER_assume(in_bn == in_k); h_pl_append(&g_pl, in_val); CANARY; }
static void any_ri(void) {
    struct RI h; g_ri = h; g_owner = 0;
    in_index = nondet_ulong(); in_bn = nondet_ulong(); in_val = nondet_ulong(); g_size0 = g_ri.numElements;
}
void harness_ri_get(void) { any_ri(); h_ri_get(&g_ri, in_index); CANARY; }
void harness_ri_insertAt(void) { any_ri(); h_ri_insertAt(&g_ri, in_index, in_val); CANARY; }
#if defined(VX_CONC) && defined(VX_RI)
void harness_ri_insertAt_conc(void) {
    any_ri(); g_owner = nondet_bool() ? 0 : 2; g_own_adds = 0;
    __CPROVER_assume(in_bn < 64);
    if (g_ri.blk[in_bn] != NULL) { g_ri.blk[in_bn] = malloc((BS << (in_bn <= MAXNC ? in_bn : 0)) * sizeof(unsigned long)); __CPROVER_assume(g_ri.blk[in_bn] != NULL); }
    g_blk0_k = g_ri.blk[in_bn];
    h_ri_insertAt(&g_ri, in_index, in_val); CANARY;
}
#endif

void harness_layout(void) {
    __CPROVER_assert(h_off_pl(0) == offsetof(struct PL, BLOCKBITS) && h_off_pl(1) == offsetof(struct PL, BLOCKSIZE) &&
                     h_off_pl(2) == offsetof(struct PL, num_containers) && h_off_pl(3) == offsetof(struct PL, allocsize) &&
                     h_off_pl(4) == offsetof(struct PL, container_size) && h_off_pl(5) == offsetof(struct PL, m_size) &&
                     h_off_pl(6) == offsetof(struct PL, blk) && h_off_pl(7) == offsetof(struct PL, sl), "layout: PiggyList fields");
    __CPROVER_assert(h_off_ri(0) == offsetof(struct RI, BLOCKBITS) && h_off_ri(1) == offsetof(struct RI, INITIALBLOCKSIZE) &&
                     h_off_ri(2) == offsetof(struct RI, numElements) && h_off_ri(3) == offsetof(struct RI, blk) &&
                     h_off_ri(4) == offsetof(struct RI, slock), "layout: RandomInsertPiggyList fields");
    CANARY;
}
/* the default-initialised list (values parsed from the source each run) satisfies INV_PL */
void lemma_initial(void) {
    g_pl.BLOCKBITS = VX_INIT_BLOCKBITS; g_pl.BLOCKSIZE = 1ul << VX_INIT_BLOCKBITS; g_pl.num_containers = VX_INIT_NC;
    g_pl.container_size = VX_INIT_CS; g_pl.allocsize = g_pl.BLOCKSIZE;
    __CPROVER_assert(INV_PL(), "lemma: initial state satisfies INV_PL");
    CANARY;
}
/* distinct indices address distinct cells: equal (bn, bi) => equal index */
void lemma_injective(void) {
    unsigned long i1 = nondet_ulong(), i2 = nondet_ulong(), b1 = nondet_ulong(), b2 = nondet_ulong();
    __CPROVER_assume(i1 + BS < (1ul << 31) && i2 + BS < (1ul << 31) && b1 < 64 && b2 < 64 && DECOMP(i1, b1) && DECOMP(i2, b2));
    __CPROVER_assert(b1 <= MAXNC - 1 + 1, "lemma: block number bounded");
    if (b1 == b2 && i1 + BS - (BS << b1) == i2 + BS - (BS << b2)) __CPROVER_assert(i1 == i2, "lemma: addressing is injective");
    /* and the decomposition is unique */
    unsigned long b3 = nondet_ulong();
    __CPROVER_assume(b3 < 64);
    if (DECOMP(i1, b3)) __CPROVER_assert(b3 == b1, "lemma: block number unique");
    CANARY;
}
