"""C28 (storage part): PiggyList<T> / RandomInsertPiggyList<T> addressing and growth, T = unsigned long (UnionFind's block_t)."""
import os
import re
from vxlib.extract import Source, strip_comments, ExtractError, blank, match_brace
from vxlib import rewrite as rw
from vxlib.cbmc import Harness

HERE = os.path.dirname(os.path.abspath(__file__))
PL = 'src/include/souffle/datastructure/PiggyList.h'

NATIVE_PRELUDE = '''#include <array>
#include <atomic>
#include <cassert>
#include <cstddef>
#include <cstring>
namespace souffle { struct SpinLock { void lock() {} void unlock() {} }; }
inline void* vx_new_array(unsigned long n, unsigned long sz) { return ::operator new[](n * sz); }
using std::size_t;
'''


def member(cls_text, regex, semi=False):
    b = blank(cls_text)
    m = re.search(regex, b)
    if not m:
        raise ExtractError('member /%s/ not found' % regex)
    ob = b.find('{', m.end() - 1)
    cb = match_brace(b, ob)
    return cls_text[m.start():cb + 1]


def extract(ctx):
    src = Source(os.path.join(ctx.repo, PL))
    log = {}
    pl, _ = src.block(r'template\s*<\s*class\s+T\s*>\s*class\s+PiggyList\s*\{')
    ri, _ = src.block(r'template\s*<\s*class\s+T\s*>\s*class\s+RandomInsertPiggyList\s*\{')
    pl, ri = strip_comments(pl), strip_comments(ri)

    def fields(cls, first, last):
        b = blank(cls)
        m1 = re.search(first, b)
        m2 = re.search(last, b)
        if not m1 or not m2:
            raise ExtractError('data member block /%s/../%s/ not found' % (first, last))
        return cls[m1.start():m2.end()]
    pl_fields = fields(pl, r'const\s+std::size_t\s+BLOCKBITS', r'mutable\s+SpinLock\s+sl\s*;')
    ri_fields = fields(ri, r'const\s+std::size_t\s+BLOCKBITS', r'mutable\s+SpinLock\s+slock\s*;')
    # initial values (default member initialisers) are recorded as static facts and used by the `initial state` lemma
    init = {}
    for name, rx in [('BLOCKBITS', r'const\s+std::size_t\s+BLOCKBITS\s*=\s*(\d+)ul;'),
                     ('num_containers', r'std::atomic<std::size_t>\s+num_containers\s*=\s*(\d+);'),
                     ('container_size', r'std::atomic<std::size_t>\s+container_size\s*=\s*(\d+);'),
                     ('m_size', r'std::atomic<std::size_t>\s+m_size\s*=\s*(\d+);')]:
        m = re.search(rx, pl_fields)
        ctx.fact('PiggyList.h: default member initialiser of %s is a literal' % name, m is not None)
        init[name] = int(m.group(1))
    ctx.fact('PiggyList.h: BLOCKSIZE = 1 << BLOCKBITS', re.search(r'const\s+std::size_t\s+BLOCKSIZE\s*=\s*\(\(\(std::size_t\)1ul\)\s*<<\s*BLOCKBITS\);', pl_fields) is not None)
    ctx.fact('PiggyList.h: allocsize initially BLOCKSIZE', re.search(r'std::size_t\s+allocsize\s*=\s*BLOCKSIZE;', pl_fields) is not None)
    ctx.fact('PiggyList.h: blockLookupTable initially all null', re.search(r'std::array<T\*,\s*max_conts>\s+blockLookupTable\s*=\s*\{\};', pl_fields) is not None)
    ctx.fact('PiggyList.h: default constructor zeroes num_containers, container_size, m_size',
             re.search(r'PiggyList\(\)\s*:\s*num_containers\(0\),\s*container_size\(0\),\s*m_size\(0\)\s*\{\}', pl) is not None)
    ctx.init = init

    def strip_nsdmi(f):
        # R4: objects are created by the harness under the representation invariant; initialisers are reported, not translated
        f, n = re.subn(r'(\b\w+)\s*=\s*[^;{]*(\{\})?;', r'\1;', f)
        log['R4 default member initialisers reported as static facts'] = log.get('R4 default member initialisers reported as static facts', 0) + n
        f = f.replace('static constexpr std::size_t max_conts;', 'static const std::size_t max_conts = 64;')
        f = f.replace('static constexpr std::size_t maxContainers;', 'static const std::size_t maxContainers = 64;')
        return f
    pl_members = [member(pl, r'inline\s+T\*\s+getBlock\s*\('), member(pl, r'inline\s+T&\s+get\s*\('), member(pl, r'std::size_t\s+createNode\s*\(\)'),
                  member(pl, r'std::size_t\s+append\s*\(T\s+element\)'), member(pl, r'inline\s+std::size_t\s+size\s*\(\)\s*const')]
    ri_members = [member(ri, r'inline\s+T\*\s+getBlock\s*\('), member(ri, r'inline\s+T&\s+get\s*\('), member(ri, r'void\s+insertAt\s*\('),
                  member(ri, r'inline\s+std::size_t\s+size\s*\(\)\s*const')]
    ctx.fact('PiggyList.h: max_conts / maxContainers are 64', 'max_conts = 64' in pl and 'maxContainers = 64' in ri)
    raw = ('namespace souffle {\ntemplate <class T>\nstruct PiggyList {\n' + '\n'.join(pl_members) + '\n' + strip_nsdmi(pl_fields) + '\n};\n'
           'template <class T>\nstruct RandomInsertPiggyList {\n' + '\n'.join(ri_members) + '\n' + strip_nsdmi(ri_fields) + '\n};\n}\n')
    raw = raw.replace('inline ', '')
    raw, n_new = re.subn(r'\bnew\s+T\[([^\]]+)\]', r'((T*)vx_new_array(\1, sizeof(T)))', raw)
    log['R8 new T[n] -> vx_new_array (fresh object or no return)'] = n_new
    if n_new < 3:
        raise ExtractError('R8(new[]) must fire for createNode, append, insertAt')
    log['R5 `inline` on members deleted'] = 1
    ctx.write('raw.hpp', raw)
    ctx.write('native.cpp', NATIVE_PRELUDE + '#include "raw.hpp"\ntemplate struct souffle::PiggyList<unsigned long>;\ntemplate struct souffle::RandomInsertPiggyList<unsigned long>;\n')
    docs = rw.clang_ast('native.cpp', 'PiggyList', ctx.work)
    # the hook reads the index obtained from m_size.fetch_add: the first local of the function (by declaration order, not by name)
    hooks = [dict(func=r'std::size_t\s+createNode\s*\(\)\s*\{', name='createNode', k=0, args='this, ' + first_local(docs, 'createNode')),
             dict(func=r'std::size_t\s+append\s*\(T\s+\w+\)\s*\{', name='append', k=0, args='this, ' + first_local(docs, 'append'))]
    log['hook arguments (by role)'] = [h['args'] for h in hooks]
    text = rw.r9_hooks(raw, hooks, log)
    ctx.write('extracted.hpp', text)
    ctx.rewrites.update(log)
    ctx.dropped += ['PiggyList/RandomInsertPiggyList: constructors, copy constructors (memcpy), destructors, clear(), freeList(), iterator classes',
                    'SpinLock is replaced by a ghost mutex flag (mutual exclusion of sl.lock()/sl.unlock() assumed)']


def first_local(docs, fname):
    found = []

    def visit(n, parents):
        if n.get('kind') == 'CXXMethodDecl' and n.get('name') == fname and any(c.get('kind') == 'CompoundStmt' for c in n.get('inner', []) or []):
            found.append(n)
    for d in docs:
        rw.walk(d, visit)
    if not found:
        raise ExtractError('clang AST: no definition of %s' % fname)
    locs = []
    rw.walk(found[0], lambda n, p: locs.append(n['name']) if n.get('kind') == 'VarDecl' and n.get('name') else None)
    if not locs:
        raise ExtractError('%s: no local variable holds the index returned by m_size.fetch_add' % fname)
    return locs[0]


def harnesses(ctx):
    cpp = os.path.join(HERE, 'wrappers.cpp')
    c = [os.path.join(HERE, 'contracts.c')]
    d = ['VX_INIT_BLOCKBITS=%d' % ctx.init['BLOCKBITS'], 'VX_INIT_NC=%d' % ctx.init['num_containers'], 'VX_INIT_CS=%d' % ctx.init['container_size']]
    P = 'souffle::PiggyList<T>::'
    R = 'souffle::RandomInsertPiggyList<T>::'
    hs = [
        Harness('piggylist.layout', 'harness_layout', cpp=cpp, c=c, defines=d, unwind=None, must_have=['layout'], clause='C mirror struct has the layout of the extracted class'),
        Harness('piggylist.initial', 'lemma_initial', c=c, defines=d, unwind=None, must_have=['lemma'], clause='the default-initialised list satisfies the representation invariant'),
        Harness('piggylist.get', 'harness_get', cpp=cpp, c=c, defines=d, enforce='h_pl_get', unwind=None, must_have=['postcondition'], object_bits=12,
                clause='addressing: get(index) is cell (bn, bi) with index + BLOCKSIZE = (BLOCKSIZE << bn) + bi, bi < BLOCKSIZE << bn, block bn allocated', funcs=[P + 'get', P + 'getBlock']),
        Harness('piggylist.addr_injective', 'lemma_injective', c=c, defines=d, unwind=None, must_have=['lemma'], clause='distinct indices address distinct cells'),
        Harness('piggylist.createNode', 'harness_createNode', cpp=cpp, c=c, defines=d, enforce='h_pl_createNode', unwind=2, object_bits=12,
                must_have=['postcondition', 'invariant base', 'invariant step'],
                clause='growth: returns the old size; afterwards the cell of that index is allocated; existing blocks untouched; invariant kept', funcs=[P + 'createNode']),
        Harness('piggylist.createNode.conc', 'harness_createNode_conc', cpp=cpp, c=c, defines=d + ['VX_CONC'], enforce='h_pl_createNode', unwind=2, object_bits=12,
                must_have=['postcondition', 'invariant base', 'invariant step', 'G\\.'],
                clause='createNode under interference (any number of concurrent creators/growers): unique own index, counters cover it on return, every intermediate '
                       'state visible to lock-free readers satisfies WINV (block stored before the counters cover it), lock released only in a quiescent state', funcs=[P + 'createNode']),
        Harness('piggylist.ri_insertAt.conc', 'harness_ri_insertAt_conc', cpp=cpp, c=c, defines=d + ['VX_CONC', 'VX_RI'], enforce='h_ri_insertAt', unwind=None, object_bits=12,
                must_have=['postcondition', 'G\\.'],
                clause='RandomInsertPiggyList::insertAt under interference (double-checked block installation): a block pointer is written only while null and under the lock, '
                       'never replaced; this thread\'s cell holds the value; exactly one element counted', funcs=[R + 'insertAt']),
        Harness('piggylist.winv', 'lemma_winv', c=c, defines=d, unwind=None, must_have=['lemma'], clause='INV_PL implies WINV; under WINV every covered index lives in an allocated block'),
        Harness('piggylist.append', 'harness_append', cpp=cpp, c=c, defines=d, enforce='h_pl_append', unwind=2, object_bits=12,
                must_have=['postcondition', 'invariant base', 'invariant step'],
                clause='append: as createNode, and the new cell holds the element', funcs=[P + 'append']),
        Harness('piggylist.ri_get', 'harness_ri_get', cpp=cpp, c=c, defines=d, enforce='h_ri_get', unwind=None, must_have=['postcondition'], object_bits=12,
                clause='RandomInsertPiggyList addressing', funcs=[R + 'get', R + 'getBlock']),
        Harness('piggylist.ri_insertAt', 'harness_ri_insertAt', cpp=cpp, c=c, defines=d, enforce='h_ri_insertAt', unwind=None, must_have=['postcondition'], object_bits=12,
                clause='insertAt allocates the block on demand, stores the value at the addressed cell, counts the element', funcs=[R + 'insertAt']),
    ]
    return hs


ASSUMPTIONS = [
    'index + 2^16 < 2^31: `(1 << blockNum)` in get() is an int shift, undefined beyond that (recorded observation, not claimed as a violation: unreachable with 32-bit element ids below 2^31 - 2^16)',
    'SpinLock: lock()/unlock() are used through the postconditions proved for the real SpinLock in unit spinlock (ghost owner); sequential consistency',
    'concurrent contract for createNode only (append/insertAt: sequential contracts); m_size bounded below 2^31 - 2^16',
    'operator new[] returns a fresh object or does not return',
    'T = unsigned long (the instantiation used by DisjointSet)',
]
TRUSTED = ['stubs/array', 'stubs/atomic', 'C mirror struct of the class layout (checked by the layout harness)', 'rewrite rules R4,R5,R9,R11']

MUTANTS = [
    dict(name='get: blockInd mask off by one', file=PL, find=r'(PiggyList\(std::size_t initialbitsize\)\s*: BLOCKBITS.*?std::size_t blockInd = \(nindex\) & \(\(1 << blockNum\))( - 1\))', repl=r'\1 - 2)', expect=r'piggylist\.(get|ri_get|ri_insertAt)'),
    dict(name='createNode: container_size not updated', file=PL, find=r'(std::size_t createNode\(\) \{.*?)container_size \+= allocsize;', repl=r'\1', expect=r'piggylist\.createNode'),
    dict(name='append: allocsize not doubled', file=PL, find=r'(std::size_t append\(T element\) \{.*?)allocsize <<= 1;', repl=r'\1', expect=r'piggylist\.append'),
    dict(name='createNode: returns new size', file=PL, find=r'(std::size_t createNode\(\) \{.*?)return new_index;', repl=r'\1return new_index + 1;', expect=r'piggylist\.createNode :: .*postcondition'),
    dict(name='createNode: counters updated before the block is stored', file=PL, find=r'(std::size_t createNode\(\) \{.*?)blockLookupTable\[num_containers\] = new T\[allocsize\];\s*num_containers \+= 1;\s*container_size \+= allocsize;', repl=r'\1num_containers += 1;\n                container_size += allocsize;\n                blockLookupTable[num_containers - 1] = new T[allocsize];', expect=r'piggylist\.createNode\.conc :: .*G\.order'),
    dict(name='createNode: grows without taking the lock', file=PL, find=r'(std::size_t createNode\(\) \{.*?)sl\.lock\(\);(.*?)sl\.unlock\(\);', repl=r'\1\2', expect=r'piggylist\.createNode\.conc'),
    # (replacing the `while` re-check by a single unconditional growth step only over-allocates: INV_PL still holds; a change that removes the loop is exit 2: the hook anchor is gone)
    dict(name='RI insertAt: installs the block without re-checking under the lock', file=PL, find=r'(slock\.lock\(\);\s*)if \(blockLookupTable\[blockNum\]\.load\(\) == nullptr\) \{(\s*blockLookupTable\[blockNum\]\.store\(new T\[INITIALBLOCKSIZE << blockNum\]\);\s*)\}', repl=r'\1\2', expect=r'piggylist\.ri_insertAt\.conc :: .*G\.block'),
    dict(name='RI get: uses BLOCKBITS-1', file=PL, find=r'(inline T& get\(std::size_t index\) const \{\s*std::size_t nindex = index \+ INITIALBLOCKSIZE;.*?return this->getBlock\(blockNum - BLOCKBITS)\)', repl=r'\1 + 1)', expect=r'piggylist\.ri_get'),
]
