#include <array>
#include <atomic>
#include <cassert>
#include <cstddef>
extern "C" {
void vx_enter_createNode_0(void); bool vx_head_createNode_0(void* self, unsigned long new_index);
void vx_enter_append_0(void); bool vx_head_append_0(void* self, unsigned long new_index);
void vx_lock(void); void vx_unlock(void);
void* vx_new_array(unsigned long n, unsigned long sz);
}
namespace souffle {
// ghost mutex standing in for SpinLock (mutual exclusion assumed)
struct SpinLock {
    int pad;
    void lock() { vx_lock(); }
    void unlock() { vx_unlock(); }
};
}
using std::size_t;
#include "extracted.hpp"
using namespace souffle;
typedef PiggyList<unsigned long> PLt;
typedef RandomInsertPiggyList<unsigned long> RIt;
extern "C" {
unsigned long* h_pl_get(void* p, unsigned long index) { return &((PLt*)p)->get(index); }
unsigned long h_pl_createNode(void* p) { return ((PLt*)p)->createNode(); }
unsigned long h_pl_append(void* p, unsigned long e) { return ((PLt*)p)->append(e); }
unsigned long* h_ri_get(void* p, unsigned long index) { return &((RIt*)p)->get(index); }
void h_ri_insertAt(void* p, unsigned long index, unsigned long v) { ((RIt*)p)->insertAt(index, v); }
// layout of the extracted classes as CBMC sees them
unsigned long h_off_pl(int k) {
    PLt* p = 0;
    switch (k) {
        case 0: return (unsigned long)&p->BLOCKBITS;
        case 1: return (unsigned long)&p->BLOCKSIZE;
        case 2: return (unsigned long)&p->num_containers;
        case 3: return (unsigned long)&p->allocsize;
        case 4: return (unsigned long)&p->container_size;
        case 5: return (unsigned long)&p->m_size;
        case 6: return (unsigned long)&p->blockLookupTable;
        case 7: return (unsigned long)&p->sl;
        default: return sizeof(PLt);
    }
}
unsigned long h_off_ri(int k) {
    RIt* p = 0;
    switch (k) {
        case 0: return (unsigned long)&p->BLOCKBITS;
        case 1: return (unsigned long)&p->INITIALBLOCKSIZE;
        case 2: return (unsigned long)&p->numElements;
        case 3: return (unsigned long)&p->blockLookupTable;
        case 4: return (unsigned long)&p->slock;
        default: return sizeof(RIt);
    }
}
}
