"""Shared extraction of src/include/souffle/RamTypes.h (type aliases + boundary constants) for CBMC."""
import os
import re
import subprocess

from .extract import Source, strip_comments, ExtractError
from . import rewrite as rw
from .cbmc import STUBS

FILE = 'src/include/souffle/RamTypes.h'


def extract(ctx, width=32):
    """Writes ramtypes.hpp into ctx.work; returns its text.  Dropped: ramBitCast (R10), isRamType, Tuple alias."""
    src = Source(os.path.join(ctx.repo, FILE))
    log = {}
    types, _ = src.between(r'#ifndef\s+RAM_DOMAIN_SIZE', r'//\s*Compile time sanity checks|static_assert')
    m = src.find(r'constexpr\s+RamSigned\s+MIN_RAM_SIGNED')
    m2 = src.find(r'constexpr\s+RamDomain\s+RAM_BIT_SHIFT_MASK[^;]*;')
    consts = src.text[m.start():m2.end()]
    text = strip_comments(types) + '\n' + strip_comments(consts) + '\n'
    text = rw.r1_using(text, log)
    text, n = re.subn(r'std::numeric_limits<\s*(\w+)\s*>::(min|max|lowest)\(\)', r'vx_limits_\2((\1)0)', text)
    log['R6 numeric_limits'] = n
    if n == 0:
        raise ExtractError('R6 must fire on RamTypes.h')
    if 'numeric_limits' in text or 'using' in text:
        raise ExtractError('RamTypes.h region still contains constructs outside the front end')
    out = ('#ifndef VX_RAMTYPES\n#define VX_RAMTYPES\n#include <cstdint>\n#include <vx_limits.h>\n#define RAM_DOMAIN_SIZE %d\n'
           'namespace souffle {\n%s\n}\n#endif\n' % (width, text))
    ctx.write('ramtypes.hpp', out)
    ctx.rewrites.update({'RamTypes.h ' + k: v for k, v in log.items()})
    ctx.fact('RamTypes.h: default RAM_DOMAIN_SIZE is 32', src.has(r'#ifndef\s+RAM_DOMAIN_SIZE\s*\n\s*#define\s+RAM_DOMAIN_SIZE\s+32'))
    # native: the R6 overloads equal std::numeric_limits (compile-time)
    p = subprocess.run(['g++', '-std=c++17', '-fsyntax-only', '-I', STUBS, os.path.join(STUBS, 'native_limits_check.cpp')],
                       stdout=subprocess.PIPE, stderr=subprocess.STDOUT)
    if p.returncode != 0:
        raise ExtractError('native check of vx_limits.h failed: ' + p.stdout.decode()[:300])
    return out
