"""Syntactic rewrites applied to the extracted copy of the real code (never to /repo).

R1   using A = T;              -> typedef T A;
R2   auto x = e;               -> <clang's deduced type> x = e;   (autotype)
R3   C() = default;            -> C() {}   ; defaulted copy/move members deleted
R4b  default member initialisers moved into constructor mem-initialiser lists
R5   static_assert / [[attr]] / alignas / friend declarations deleted
R9   loop-head hooks inserted by (function, loop ordinal)
R11  class -> struct, private:/protected: -> public:   (access control has no run-time meaning)
"""
import json
import os
import re
import subprocess

from .extract import ExtractError, blank, match_brace

SCALAR = re.compile(r'^(const )?(unsigned |signed )?(bool|char|short|int|long|long long|float|double|unsigned|'
                    r'unsigned long|unsigned int|unsigned char|unsigned short|unsigned long long)( const)?( ?\*)?$')


def r1_using(text, log):
    rx = re.compile(r'^(\s*)using\s+(\w+)\s*=\s*([^;]+);', re.M)
    text, n = rx.subn(lambda m: '%stypedef %s %s;' % (m.group(1), m.group(3).strip(), m.group(2)), text)
    log['R1 using->typedef'] = log.get('R1 using->typedef', 0) + n
    return text


def r3_default(text, log):
    n_total = 0
    # copy/move ctor and assignment = default : delete
    rx = re.compile(r'^[ \t]*\w+\s*&?\s*(operator=\s*)?\(\s*(const\s+)?\w+\s*&&?\s*\w*\s*\)\s*=\s*default\s*;[ \t]*\n', re.M)
    text, n = rx.subn('', text)
    n_total += n
    rx = re.compile(r'^[ \t]*\w+\s*\(\s*(const\s+)?(\w+)\s*&&?\s*\w*\s*\)\s*=\s*default\s*;[ \t]*\n', re.M)
    text, n = rx.subn('', text)
    n_total += n
    rx = re.compile(r'\b(\w+)\s*\(\s*\)\s*=\s*default\s*;')
    text, n = rx.subn(lambda m: '%s() {}' % m.group(1), text)
    n_total += n
    log['R3 =default'] = log.get('R3 =default', 0) + n_total
    return text


def r5_noise(text, log):
    n_total = 0
    for rx in [r'^[ \t]*static_assert\s*\([^;]*\);[ \t]*\n', r'\[\[\s*\w+\s*\]\]', r'\balignas\s*\([^)]*\)',
               r'^[ \t]*friend\s+(class|struct)\s+\w+\s*;[ \t]*\n']:
        text, n = re.compile(rx, re.M).subn('', text)
        n_total += n
    log['R5 noise'] = log.get('R5 noise', 0) + n_total
    return text


def r11_access(text, log):
    text, n1 = re.subn(r'\bclass(\s+\w+\s*(?::[^{;]*)?\{)', r'struct\1', text)
    text, n2 = re.subn(r'\b(private|protected)\s*:', 'public:', text)
    log['R11 class->struct/public'] = log.get('R11 class->struct/public', 0) + n1 + n2
    return text


def r4b_nsdmi(text, classname, log):
    """Move default member initialisers of `classname` into every constructor's mem-initialiser list."""
    b = blank(text)
    m = re.search(r'\b(class|struct)\s+%s\b[^;{]*\{' % re.escape(classname), b)
    if not m:
        raise ExtractError('R4b: class %s not found' % classname)
    ob = m.end() - 1
    cb = match_brace(b, ob)
    body = text[ob + 1:cb]
    bb = b[ob + 1:cb]
    # top-level statements of the class body
    depth = 0
    stmts = []
    start = 0
    i = 0
    while i < len(bb):
        ch = bb[i]
        if ch in '{(':
            depth += 1
        elif ch in '})':
            depth -= 1
            if depth == 0 and ch == '}':
                # end of a function body or nested class (maybe followed by ';')
                j = i + 1
                while j < len(bb) and bb[j] in ' \t\n':
                    j += 1
                if j < len(bb) and bb[j] == ';':
                    i = j
                stmts.append((start, i + 1))
                start = i + 1
        elif ch == ';' and depth == 0:
            stmts.append((start, i + 1))
            start = i + 1
        elif ch == ':' and depth == 0 and re.search(r'\b(public|private|protected)\s*$', bb[start:i]):
            stmts.append((start, i + 1))
            start = i + 1
        i += 1
    inits = []
    new_body = []
    last = 0
    for s, e in stmts:
        st = body[s:e]
        stb = bb[s:e]
        mm = re.match(r'^(\s*)((?:[\w:<>,\s\*&]|::)+?)\s+(\w+)\s*(?:=\s*([^;{}]+)|\{([^;{}]*)\})\s*;$', st, re.S)
        if mm and '(' not in stb.split('=')[0].split('{')[0] and not re.match(r'\s*(static|constexpr|typedef|using|return)\b', st):
            expr = mm.group(4) if mm.group(4) is not None else mm.group(5)
            inits.append((mm.group(3), expr.strip()))
            new_body.append(body[last:s])
            new_body.append('%s%s %s;' % (mm.group(1), mm.group(2), mm.group(3)))
            last = e
    new_body.append(body[last:])
    nb = ''.join(new_body)
    if not inits:
        raise ExtractError('R4b: no default member initialiser found in %s' % classname)
    # constructors
    nbb = blank(nb)
    out = []
    pos = 0
    count = 0
    for cm in re.finditer(r'\b%s\s*\(' % re.escape(classname), nbb):
        # skip destructors and uses that are not declarations at depth 0
        pre = nbb[:cm.start()]
        if pre.count('{') != pre.count('}'):
            continue
        if pre.rstrip().endswith('~'):
            continue
        cp = match_brace(nbb, cm.end() - 1)
        k = cp + 1
        while k < len(nbb) and nbb[k] in ' \t\n':
            k += 1
        if k >= len(nbb) or nbb[k] not in ':{':
            continue  # declaration only / deleted
        have = []
        if nbb[k] == ':':
            ob2 = k + 1
            # find the body '{' : first '{' at paren depth 0 that is preceded by ')' or '}' or identifier+space
            # (mem-initialisers in the extracted classes use parentheses only)
            dpt = 0
            j = k + 1
            while j < len(nbb):
                if nbb[j] == '(':
                    dpt += 1
                elif nbb[j] == ')':
                    dpt -= 1
                elif nbb[j] == '{' and dpt == 0:
                    break
                j += 1
            existing = nb[k + 1:j]
            have = re.findall(r'(\w+)\s*\(', existing)
            add = ', '.join('%s(%s)' % (n_, e_) for n_, e_ in inits if n_ not in have)
            out.append(nb[pos:k + 1])
            out.append(' ' + (add + ', ' if add else ''))
            pos = k + 1
        else:
            add = ', '.join('%s(%s)' % (n_, e_) for n_, e_ in inits)
            out.append(nb[pos:k])
            out.append(': ' + add + ' ')
            pos = k
        count += 1
    out.append(nb[pos:])
    if count == 0:
        raise ExtractError('R4b: class %s has no user-written constructor to receive its default member initialisers' % classname)
    log['R4b NSDMI->ctor (%s: %s)' % (classname, ','.join(n_ for n_, _ in inits))] = count
    return text[:ob + 1] + ''.join(out) + text[cb:]


# ------------------------------------------------------------------------------------------------------------
# clang AST services

def clang_ast(native_cpp, filt, cwd, extra=()):
    cmd = ['clang++', '-std=c++17', '-fsyntax-only', '-Xclang', '-ast-dump=json', '-Xclang', '-ast-dump-filter=' + filt] + \
        list(extra) + [native_cpp]
    p = subprocess.run(cmd, cwd=cwd, stdout=subprocess.PIPE, stderr=subprocess.PIPE)
    if p.returncode != 0:
        raise ExtractError('clang could not parse the extracted text natively: ' + p.stderr.decode()[:600])
    txt = p.stdout.decode()
    dec = json.JSONDecoder()
    docs = []
    i = 0
    while True:
        j = txt.find('{', i)
        if j < 0:
            break
        # filter output is "Dumping name:\n{json}\n"
        try:
            d, e = dec.raw_decode(txt, j)
        except ValueError:
            break
        docs.append(d)
        i = e
    return docs


def walk(n, f, parents=()):
    f(n, parents)
    for c in n.get('inner', []) or []:
        if isinstance(c, dict):
            walk(c, f, parents + (n,))


def r2_auto(text, fname, docs, log, allow=SCALAR, extra_types=()):
    """Replace `auto` in variable declarations by the type clang deduced at that byte offset."""
    found = {}

    def visit(n, parents):
        if n.get('kind') == 'VarDecl':
            rb = n.get('range', {}).get('begin', {})
            off = rb.get('offset')
            if off is None and 'expansionLoc' in rb:
                off = rb['expansionLoc'].get('offset')
            mm = re.match(r'((?:const|static|constexpr|volatile)\s+)*auto\b', text[off:off + 60]) if off is not None else None
            if mm:
                off = off + mm.end() - 4
                ty = n['type'].get('desugaredQualType', n['type'].get('qualType'))
                if ty == 'auto' or 'dependent' in ty or 'type-parameter' in ty:
                    return   # the template pattern itself; only concrete instantiations carry deduced types
                if off in found and found[off] != ty:
                    raise ExtractError('auto at offset %d deduced as both %s and %s' % (off, found[off], ty))
                found[off] = ty
    for d in docs:
        walk(d, visit)
    b = blank(text)
    autos = [m.start() for m in re.finditer(r'\bauto\b', b)]
    out = []
    pos = 0
    n = 0
    for off in autos:
        # only variable declarations: `auto [&*const ]*name =|:|{`
        if not re.match(r'auto\s*(const\s*)?[&\*]*\s*\w+\s*(=|\{|:|;)', b[off:off + 200]):
            raise ExtractError('`auto` at offset %d is not a simple variable declaration: %r' % (off, text[off:off + 40]))
        if off not in found:
            raise ExtractError('clang reported no deduced type for `auto` at offset %d: %r' % (off, text[off:off + 40]))
        ty = found[off]
        # the declarator keeps its own & / * / const; strip what clang folded into the type
        decl = re.match(r'auto\s*((?:const\s*)?[&\*]*)', b[off:off + 60]).group(1)
        base = ty
        if '&' in decl and base.endswith('&'):
            base = base[:-1].strip()
        if '*' in decl and base.endswith('*'):
            base = base[:-1].strip()
        base = re.sub(r'^const (.*)$', r'\1', base) if decl.strip().startswith('const') else base
        base = re.sub(r'\b(souffle::|std::__cxx11::)', '', base)
        if not (allow.match(base) or base in extra_types):
            raise ExtractError('`auto` at offset %d deduced as %r: not a scalar/unit type, refusing to rewrite' % (off, ty))
        out.append(text[pos:off])
        out.append(base)
        pos = off + 4
        n += 1
        log.setdefault('R2 auto types', []).append('%s -> %s' % (text[off:off + 30].split('=')[0].strip(), base))
    out.append(text[pos:])
    return ''.join(out), n


# ------------------------------------------------------------------------------------------------------------
# loops

LOOP_RE = re.compile(r'\b(while|for|do)\b')


def find_loops(text, func_regex, nth=0):
    """Return [(kind, kw_start, cond_open, cond_close)] for the loops inside the body of the function matched by
    func_regex (absolute offsets into text), in source order."""
    b = blank(text)
    ms = list(re.finditer(func_regex, b))
    if len(ms) <= nth:
        raise ExtractError('function anchor /%s/ not found for loop hooks' % func_regex)
    m = ms[nth]
    ob = b.find('{', m.end() - 1)
    cb = match_brace(b, ob)
    loops = []
    for lm in LOOP_RE.finditer(b, ob, cb):
        kw = lm.group(1)
        if kw == 'do':
            raise ExtractError('do-while loops are not supported by the hook encoding')
        j = lm.end()
        while b[j] in ' \t\n':
            j += 1
        if b[j] != '(':
            continue
        # `while` that closes a do-while would follow '}' : rejected above
        cp = match_brace(b, j)
        loops.append((kw, lm.start(), j, cp))
    return loops, (ob, cb)


def r9_hooks(text, hooks, log):
    """hooks: list of dicts {func: regex, name: 'f', k: ordinal, args: 'a, b'}.  Inserts
       vx_enter_f_K(); while (vx_head_f_K(args), cond)      /  for (init; vx_head_f_K(args), cond; inc)"""
    edits = []
    for h in hooks:
        loops, _ = find_loops(text, h['func'], h.get('nth', 0))
        if h['k'] >= len(loops):
            raise ExtractError('loop %s.%d not found (function has %d loops)' % (h['name'], h['k'], len(loops)))
        kw, ks, po, pc = loops[h['k']]
        b = blank(text)
        # the loop statement must be at statement level so that prefixing a call is meaning-preserving
        j = ks - 1
        while j >= 0 and b[j] in ' \t\n':
            j -= 1
        if b[j] not in ';{}':
            raise ExtractError('loop %s.%d is not at statement level (preceded by %r)' % (h['name'], h['k'], b[j]))
        tag = '%s_%d' % (h['name'], h['k'])
        call = 'vx_head_%s(%s)' % (tag, h.get('args', ''))
        if kw == 'while':
            edits.append((ks, ks, 'vx_enter_%s(); ' % tag))
            edits.append((po + 1, po + 1, call + ', '))
        else:
            inner = b[po + 1:pc]
            if ':' in inner and ';' not in inner:
                raise ExtractError('range-for loops are outside the front end')
            s1 = b.find(';', po + 1)
            # first ';' at depth 0
            dpt = 0
            s1 = None
            for q in range(po + 1, pc):
                if b[q] in '([{':
                    dpt += 1
                elif b[q] in ')]}':
                    dpt -= 1
                elif b[q] == ';' and dpt == 0:
                    s1 = q
                    break
            if s1 is None:
                raise ExtractError('cannot find condition of for loop %s.%d' % (h['name'], h['k']))
            s2 = None
            for q in range(s1 + 1, pc):
                if b[q] in '([{':
                    dpt += 1
                elif b[q] in ')]}':
                    dpt -= 1
                elif b[q] == ';' and dpt == 0:
                    s2 = q
                    break
            cond = b[s1 + 1:s2].strip()
            edits.append((ks, ks, 'vx_enter_%s(); ' % tag))
            edits.append((s1 + 1, s1 + 1, ' ' + call + (', ' if cond else '')))
        log['R9 hook %s' % tag] = 1
    edits.sort(key=lambda e: e[0], reverse=True)
    for s, e, t in edits:
        text = text[:s] + t + text[e:]
    return text


def decl_order(docs, func_name):
    """names of the parameters and locals of func_name in declaration order (first definition found)"""
    target = {}

    def find_fn(n, parents):
        if n.get('kind') in ('CXXMethodDecl', 'FunctionDecl') and n.get('name') == func_name and any(
                c.get('kind') == 'CompoundStmt' for c in n.get('inner', []) or []):
            target.setdefault('fn', n)
    for d in docs:
        walk(d, find_fn)
    names = []
    if 'fn' in target:
        def v(n, parents):
            if n.get('kind') in ('ParmVarDecl', 'VarDecl') and n.get('name') and n['name'] not in names:
                names.append(n['name'])
        walk(target['fn'], v)
    return names


def hook_args_by_order(docs, text, func_name, k, casts):
    """hook arguments derived from the clang-computed modified set, in declaration order, so that renaming a local does not
    break the hook: casts = list of cast prefixes per position, e.g. ['&', '&'] or ['(const void**)&', ...]"""
    mod = loop_modified(docs, text, func_name, k)
    decls = decl_order(docs, func_name)
    order = [n for n in decls if n in mod]
    if len(order) < len(casts):
        # the loop modifies fewer variables than the hook can havoc: pass further declared variables (havocking more is sound)
        extra = [n for n in decls if n not in order][:len(casts) - len(order)]
        order = [n for n in decls if n in order or n in extra]
    if len(order) != len(casts):
        raise ExtractError('loop %s.%d modifies %s; its hook expects %d variables' % (func_name, k, order, len(casts)))
    return ', '.join(c + n for c, n in zip(casts, order)), order


def loop_modified(docs, text, func_name, k):
    """Over-approximate set of variables (declared outside loop k of function func_name) that the loop may modify:
    every DeclRefExpr to a non-const local/parameter inside the loop that is not directly an lvalue-to-rvalue read."""
    target = {}

    def find_fn(n, parents):
        if n.get('kind') in ('CXXMethodDecl', 'FunctionDecl') and n.get('name') == func_name and any(
                c.get('kind') == 'CompoundStmt' for c in n.get('inner', []) or []):
            target.setdefault('fn', n)
    for d in docs:
        walk(d, find_fn)
    if 'fn' not in target:
        raise ExtractError('clang AST has no definition of %s' % func_name)
    loops = []

    def find_loops_ast(n, parents):
        if n.get('kind') in ('WhileStmt', 'ForStmt', 'DoStmt'):
            loops.append(n)
    walk(target['fn'], find_loops_ast)
    if k >= len(loops):
        raise ExtractError('clang AST: %s has %d loops, wanted #%d' % (func_name, len(loops), k))
    loop = loops[k]
    inside_decl = set()
    mod = set()

    def v(n, parents):
        if n.get('kind') == 'VarDecl':
            inside_decl.add(n.get('id'))
        if n.get('kind') == 'DeclRefExpr':
            rd = n.get('referencedDecl', {})
            if rd.get('kind') not in ('VarDecl', 'ParmVarDecl'):
                return
            par = parents[-1] if parents else {}
            if par.get('kind') == 'ImplicitCastExpr' and par.get('castKind') == 'LValueToRValue':
                return
            qt = rd.get('type', {}).get('qualType', '')
            if qt.startswith('const ') and not qt.endswith('*'):
                return
            mod.add((rd.get('id'), rd.get('name')))
    walk(loop, v)
    if loop.get('kind') == 'ForStmt' and loop.get('inner'):
        # variables declared in the for-init are loop-carried: visible at the loop head, so the hook must havoc them
        init_decl = set()

        def vi(n, parents):
            if n.get('kind') == 'VarDecl':
                init_decl.add(n.get('id'))
        if isinstance(loop['inner'][0], dict):
            walk(loop['inner'][0], vi)
        inside_decl -= init_decl
    return sorted(n for i, n in mod if i not in inside_decl)
