"""goto-cc / goto-instrument / cbmc invocation, result parsing, resource limits."""
import json
import os
import re
import resource
import subprocess
import threading
import time

_CPP_CACHE = {}
_CPP_LOCK = threading.Lock()

STUBS = os.path.join(os.path.dirname(os.path.dirname(os.path.abspath(__file__))), 'stubs')

RESULT_RE = re.compile(r'^\[(?P<id>\S+)\]\s+(?:(?:file\s+\S+\s+)?line\s+(?P<line>\d+)\s+)?(?P<desc>.*):\s+(?P<st>SUCCESS|FAILURE|UNKNOWN|ERROR)\s*$')


class ToolError(Exception):
    """front-end rejection, instrumentation error, solver timeout: UNDECIDED, never a verdict"""
    pass


def _limits(mem_gb):
    def f():
        b = int(mem_gb * (1 << 30))
        resource.setrlimit(resource.RLIMIT_AS, (b, b))
        os.setsid()
    return f


def run(cmd, cwd, timeout, mem_gb=8, log=None):
    t0 = time.time()
    try:
        p = subprocess.Popen(cmd, cwd=cwd, stdout=subprocess.PIPE, stderr=subprocess.STDOUT, preexec_fn=_limits(mem_gb))
        try:
            out, _ = p.communicate(timeout=timeout)
            rc = p.returncode
        except subprocess.TimeoutExpired:
            try:
                os.killpg(p.pid, 9)
            except Exception:
                p.kill()
            out, _ = p.communicate()
            rc = -999
    except OSError as e:
        out, rc = str(e).encode(), -998
    dt = time.time() - t0
    out = out.decode('utf-8', 'replace')
    if log:
        with open(log, 'a') as f:
            f.write('$ %s\n%s\n[rc=%s, %.2fs]\n\n' % (' '.join(cmd), out, rc, dt))
    return rc, out, dt


class Harness:
    """One verification task = one entry point, at most one function whose contract is enforced."""

    def __init__(self, name, entry, cpp=None, c=None, enforce=None, replace=(), defines=(), unwind=2,
                 backend='sat', flags=None, bounded=None, canary=True, exclude=(), clause='', must_have=(),
                 timeout=None, object_bits=None, funcs=(), cpp_defines=(), expect_fail=None, unwind_is_obligation=False, tier='quick'):
        self.name = name            # unique within the unit
        self.entry = entry          # harness function (C)
        self.cpp = cpp              # C++ translation unit (wrappers) or None for pure-C lemma harnesses
        self.c = c                  # list of C files (contracts, spec)
        self.enforce = enforce      # extern "C" function whose contract is enforced (None: plain assertions)
        self.replace = list(replace)
        self.defines = list(defines)
        self.cpp_defines = list(cpp_defines)
        self.unwind = unwind
        self.backend = backend
        self.flags = flags if flags is not None else ['--bounds-check', '--pointer-check', '--signed-overflow-check',
                                                      '--div-by-zero-check', '--undefined-shift-check']
        self.bounded = bounded      # None or dict describing the bound (then never counted as proved)
        self.canary = canary
        self.exclude = list(exclude)  # [(regex on obligation id/desc, reason)] excluded BY NAME and listed in evidence
        self.clause = clause
        self.must_have = list(must_have)  # regexes that must match some obligation (vacuity guard)
        self.timeout = timeout
        self.object_bits = object_bits
        self.funcs = list(funcs)    # real functions this harness puts under contract (for evidence)
        self.expect_fail = expect_fail  # for self-tests: regex of obligation expected to fail
        self.unwind_is_obligation = unwind_is_obligation  # clause is 'loop runs 0 times': unwinding assertion IS the obligation
        self.tier = tier


# back ends for which the canary assertion is checked in the same run; SMT back ends get a separate SAT run on that one property
INLINE_CANARY = ('sat', 'kissat', 'cadical')
BACKEND_FLAGS = {
    'sat': [],
    'z3': ['--z3'],
    'cvc5': ['--cvc5'],
    'kissat': ['--external-sat-solver', 'kissat'],
    'cadical': ['--sat-solver', 'cadical'],
}


def parse_results(out):
    res = []
    for line in out.splitlines():
        m = RESULT_RE.match(line.strip())
        if m:
            res.append({'id': m.group('id'), 'line': m.group('line'), 'desc': m.group('desc'), 'status': m.group('st')})
    return res


class Result:
    def __init__(self, h):
        self.h = h
        self.obligations = []     # list of dicts id/desc/status
        self.excluded = []
        self.failed = []
        self.status = 'undecided'  # 'pass' | 'fail' | 'undecided'
        self.reason = ''
        self.solver_s = 0.0
        self.cmds = []
        self.binary = None
        self.canary_ok = None
        self.log = None


def build_and_check(h, work, timeout, mem_gb=8, extra_defines=(), tag='', build_only=False):
    """Returns Result.  Raises nothing: tool problems become status 'undecided' with a reason."""
    r = Result(h)
    d = os.path.join(work, h.name + tag)
    os.makedirs(d, exist_ok=True)
    log = os.path.join(d, 'log.txt')
    open(log, 'w').close()
    r.log = log
    defs = ['-D' + x for x in list(h.defines) + list(extra_defines) + (['VX_CANARY'] if (h.canary and (h.backend in INLINE_CANARY or 'VX_CANARY' in extra_defines)) else [])]
    objs = []
    try:
        if h.cpp:
            cmd0 = ['goto-cc', '-nostdinc', '-I', STUBS, '-I', work, '-I', os.path.dirname(h.cpp)] + defs + \
                   ['-D' + x for x in h.cpp_defines] + ['-c', h.cpp]
            key = ' '.join(cmd0)
            with _CPP_LOCK:
                ent = _CPP_CACHE.get(key)
                if ent is None:
                    ent = _CPP_CACHE[key] = {'lock': threading.Lock(), 'obj': None, 'err': None}
            with ent['lock']:
                if ent['obj'] is None and ent['err'] is None:
                    o = os.path.join(d, 'unit.o')
                    rc, out, dt = run(cmd0 + ['-o', o], d, 600, mem_gb, log)
                    if rc != 0:
                        lines = [l for l in out.strip().splitlines() if 'error' in l] or out.strip().splitlines()[-3:]
                        ent['err'] = 'goto-cc (C++) failed: ' + ' | '.join(lines)[:400]
                    else:
                        ent['obj'] = o
            r.cmds.append(key + ' -o unit.o')
            if ent['err']:
                raise ToolError(ent['err'])
            objs.append(ent['obj'])
        for i, cf in enumerate(h.c or []):
            cmd0 = ['goto-cc', '-I', work, '-I', os.path.dirname(cf)] + defs + ['-c', cf]
            key = ' '.join(cmd0)
            with _CPP_LOCK:
                ent = _CPP_CACHE.get(key)
                if ent is None:
                    ent = _CPP_CACHE[key] = {'lock': threading.Lock(), 'obj': None, 'err': None}
            with ent['lock']:
                if ent['obj'] is None and ent['err'] is None:
                    o = os.path.join(d, 'c%d.o' % i)
                    rc, out, dt = run(cmd0 + ['-o', o], d, 300, mem_gb, log)
                    if rc != 0:
                        lines = [l for l in out.strip().splitlines() if 'error' in l] or out.strip().splitlines()[-3:]
                        ent['err'] = 'goto-cc (C) failed: ' + ' | '.join(lines)[:400]
                    else:
                        ent['obj'] = o
            r.cmds.append(key + ' -o c%d.o' % i)
            if ent['err']:
                raise ToolError(ent['err'])
            objs.append(ent['obj'])
        a = os.path.join(d, 'a.gb')
        cmd = ['goto-cc', '--function', h.entry] + objs + ['-o', a]
        rc, out, dt = run(cmd, d, 300, mem_gb, log)
        r.cmds.append(' '.join(cmd))
        if rc != 0:
            raise ToolError('goto-cc link failed: ' + (out.strip().splitlines()[-1][:300] if out.strip() else ''))
        b = a
        if h.enforce or h.replace:
            b = os.path.join(d, 'b.gb')
            cmd = ['goto-instrument', '--dfcc', h.entry]
            if h.enforce:
                cmd += ['--enforce-contract', h.enforce]
            for g in h.replace:
                cmd += ['--replace-call-with-contract', g]
            cmd += [a, b]
            rc, out, dt = run(cmd, d, 600, mem_gb, log)
            r.cmds.append(' '.join(cmd))
            if rc != 0:
                raise ToolError('goto-instrument failed: ' + (out.strip().splitlines()[-1][:300] if out.strip() else ''))
        r.binary = b
        if build_only:
            r.status = 'built'
            return r
        cmd = ['cbmc', b] + h.flags + BACKEND_FLAGS[h.backend]
        if h.unwind is not None:
            cmd += ['--unwind', str(h.unwind), '--unwinding-assertions']
        if h.object_bits:
            cmd += ['--object-bits', str(h.object_bits)]
        to = h.timeout or timeout
        rc, out, dt = run(cmd, d, to, mem_gb, log)
        r.cmds.append(' '.join(cmd))
        r.solver_s = dt
        if rc == -999:
            raise ToolError('cbmc timeout after %ds' % to)
        if re.search(r'ignoring forall|ignoring exists|Parse Error|SMT2 solver returned error|^UNKNOWN|out of memory|std::bad_alloc', out, re.M):
            raise ToolError('solver/log problem: ' + re.search(r'.*(ignoring forall|ignoring exists|Parse Error|SMT2 solver returned error|UNKNOWN|out of memory|std::bad_alloc).*', out).group(0)[:200])
        obs = parse_results(out)
        if 'VERIFICATION SUCCESSFUL' not in out and 'VERIFICATION FAILED' not in out:
            raise ToolError('cbmc gave no verdict (rc=%s): %s' % (rc, out.strip().splitlines()[-1][:300] if out.strip() else ''))
        if not obs:
            raise ToolError('zero obligations generated (vacuous)')
        keep = []
        canaries = [o for o in obs if o['desc'].startswith('canary:')]
        obs = [o for o in obs if not o['desc'].startswith('canary:')]
        if h.canary and h.backend in INLINE_CANARY and not build_only:
            # vacuity guard, same run: assert(0) placed after the call under contract must be reachable, i.e. FAIL
            if not canaries:
                raise ToolError('vacuity guard: canary assertion not found in the property list')
            if not any(o['status'] == 'FAILURE' for o in canaries):
                raise ToolError('vacuity guard: canary assertion did not fail: precondition unsatisfiable or call never returns')
            r.canary_ok = True
        for o in obs:
            key = o['id'] + ' ' + o['desc']
            ex = None
            for rx, why in h.exclude:
                if re.search(rx, key):
                    ex = why
                    break
            if ex:
                o['excluded'] = ex
                r.excluded.append(o)
            else:
                keep.append(o)
        r.obligations = keep
        for rx in h.must_have:
            if not any(re.search(rx, o['id'] + ' ' + o['desc']) for o in keep):
                raise ToolError('expected obligation /%s/ missing from property list (vacuity guard)' % rx)
        bad = [o for o in keep if o['status'] != 'SUCCESS']
        # an unwinding assertion failing means a loop was not closed by its hook: undecided, not a violation
        unw = [o for o in bad if 'unwind' in o['id'] or 'unwinding assertion' in o['desc']]
        if unw and not h.unwind_is_obligation:
            raise ToolError('unwinding assertion failed (loop not closed): ' + unw[0]['id'])
        if any(o['status'] in ('UNKNOWN', 'ERROR') for o in bad):
            raise ToolError('obligation status UNKNOWN/ERROR: ' + bad[0]['id'])
        r.failed = bad
        r.status = 'fail' if bad else 'pass'
    except ToolError as e:
        r.status = 'undecided'
        r.reason = str(e)
    return r


def trace(h, r, work, timeout, mem_gb=8, tag=''):
    """Re-run cbmc with --trace --json-ui on the first failed obligation; return (assignments dict, raw text)."""
    d = os.path.join(work, h.name + tag)
    if not r.binary or not r.failed:
        return {}, ''
    pref = [x for x in r.failed if 'unwind' not in x['id'] and 'postcondition' not in x['id']] or [x for x in r.failed if 'unwind' not in x['id']] or r.failed
    prop = pref[0]['id']
    cmd = ['cbmc', r.binary] + h.flags + BACKEND_FLAGS[h.backend] + ['--trace', '--json-ui', '--property', prop]
    if h.unwind is not None:
        cmd += ['--unwind', str(h.unwind)]
    rc, out, dt = run(cmd, d, timeout, mem_gb, os.path.join(d, 'trace_log.txt'))
    vals = {}
    ints = {}
    order = []
    try:
        doc = json.loads(out)
        for item in doc:
            if isinstance(item, dict) and 'result' in item:
                for res in item['result']:
                    for st in res.get('trace', []):
                        if st.get('stepType') == 'assignment':
                            lhs = st.get('lhs', '')
                            v = st.get('value', {})
                            if 'binary' in v and v.get('name') in ('integer', 'pointer', None) or ('binary' in v and 'data' in v and not re.match(r'^-?\d', str(v['data']))):
                                try:
                                    ints[lhs] = int(v['binary'], 2)
                                except Exception:
                                    pass
                            if 'data' in v:
                                vals[lhs] = v['data']
                                order.append((lhs, v['data'], st.get('sourceLocation', {}).get('function', ''), st.get('assignmentType', '')))
    except Exception as e:
        return {}, out[:20000]
    return {'last': vals, 'order': order, 'uint': ints}, out


def canary(h, work, timeout, mem_gb=8):
    """Vacuity guard: the same harness built with -DVX_CANARY (assert(0) after the call under contract); that assertion —
    and only it (--property, SAT back end) — is checked and must FAIL: precondition satisfiable, call returns on some path."""
    import copy
    hc = copy.copy(h)
    hc.backend = 'sat'
    d = os.path.join(work, h.name + '.canary')
    os.makedirs(d, exist_ok=True)
    # build only (reuse build_and_check up to the binary by asking for a property that does not exist yet)
    r = build_and_check(hc, work, timeout, mem_gb, extra_defines=['VX_CANARY'], tag='.canary', build_only=True)
    if r.status == 'undecided':
        return False, 'canary undecided: ' + r.reason
    if r.status == 'undecided' and not r.binary:
        return False, 'canary undecided: ' + r.reason
    rc, out, dt = run(['cbmc', r.binary, '--show-properties'], d, 300, mem_gb)
    ids = re.findall(r'Property (\S+):\n[^\n]* function %s\n\s*canary: reachable after the call under contract' % re.escape(h.entry), out)
    if not ids:
        return False, 'canary assertion not found in the property list'
    cmd = ['cbmc', r.binary, '--property', ids[0]]
    if h.unwind is not None:
        cmd += ['--unwind', str(h.unwind)]
    if h.object_bits:
        cmd += ['--object-bits', str(h.object_bits)]
    rc, out, dt = run(cmd, d, timeout, mem_gb, os.path.join(d, 'log.txt'))
    if rc == -999:
        return False, 'canary undecided: cbmc timeout'
    if re.search(r'\[%s\].*: FAILURE' % re.escape(ids[0]), out):
        return True, ''
    if 'VERIFICATION SUCCESSFUL' in out:
        return False, 'canary assertion did not fail: precondition unsatisfiable or call never returns'
    return False, 'canary undecided: ' + (out.strip().splitlines()[-1][:200] if out.strip() else 'no output')
