"""Region extraction from the real Souffle sources + logged rewrite rules.

Everything here works on text: regions are located by *identifier* anchors (never by line number) and cut
by brace matching on a comment/string-blanked copy of the file (same length, so offsets agree).
A missing anchor raises ExtractError -> exit 2 (UNDECIDED), never a verdict.
"""
import re


class ExtractError(Exception):
    pass


def blank(text, keep_strings=False):
    """Return text with comments (and, unless keep_strings, string and char literal contents) replaced by
    spaces (length preserved)."""
    out = list(text)
    i, n = 0, len(text)
    while i < n:
        c = text[i]
        if text.startswith('//', i):
            j = text.find('\n', i)
            j = n if j < 0 else j
            for k in range(i, j):
                out[k] = ' '
            i = j
        elif text.startswith('/*', i):
            j = text.find('*/', i + 2)
            j = n if j < 0 else j + 2
            for k in range(i, j):
                if out[k] != '\n':
                    out[k] = ' '
            i = j
        elif c == '"' or c == "'":
            # digit separators (1'000) do not occur in the extracted files
            j = i + 1
            while j < n and text[j] != c:
                if text[j] == '\\':
                    j += 1
                j += 1
            if not keep_strings:
                for k in range(i + 1, min(j, n)):
                    if out[k] != '\n':
                        out[k] = ' '
            i = j + 1
        else:
            i += 1
    return ''.join(out)


def match_brace(btext, open_pos):
    """btext[open_pos] == '{' (or '('): return index of the matching closer."""
    o = btext[open_pos]
    c = {'{': '}', '(': ')', '[': ']'}[o]
    depth = 0
    for i in range(open_pos, len(btext)):
        if btext[i] == o:
            depth += 1
        elif btext[i] == c:
            depth -= 1
            if depth == 0:
                return i
    raise ExtractError('unbalanced %s at offset %d' % (o, open_pos))


class Source:
    def __init__(self, path):
        self.path = path
        with open(path, encoding='utf-8', errors='surrogateescape') as f:
            self.text = f.read()
        self.b = blank(self.text)

    def find(self, regex, nth=0, start=0, end=None):
        ms = list(re.compile(regex, re.S).finditer(self.b, start, end if end is not None else len(self.b)))
        if len(ms) <= nth:
            raise ExtractError('anchor /%s/ (occurrence %d) not found in %s' % (regex, nth, self.path))
        return ms[nth]

    def block(self, regex, nth=0, start=0, end=None, semi=True):
        """Text from the start of the regex match through the brace block that follows it
        (and a trailing ';' if semi). Returns (text, (s, e))."""
        m = self.find(regex, nth, start, end)
        ob = self.b.find('{', m.end() - 1 if self.b[m.end() - 1] == '{' else m.end())
        if ob < 0:
            raise ExtractError('no block after /%s/ in %s' % (regex, self.path))
        cb = match_brace(self.b, ob)
        e = cb + 1
        if semi:
            m2 = re.compile(r'\s*;').match(self.b, e)
            if m2:
                e = m2.end()
        return self.text[m.start():e], (m.start(), e)

    def body(self, regex, nth=0, start=0, end=None):
        """Inside of the brace block following the regex match (without the braces)."""
        m = self.find(regex, nth, start, end)
        ob = self.b.find('{', m.end() - 1 if self.b[m.end() - 1] == '{' else m.end())
        cb = match_brace(self.b, ob)
        return self.text[ob + 1:cb], (ob + 1, cb)

    def between(self, re_from, re_to, nth=0, start=0, include_to=False):
        m1 = self.find(re_from, nth, start)
        m2 = self.find(re_to, 0, m1.end())
        e = m2.end() if include_to else m2.start()
        return self.text[m1.start():e], (m1.start(), e)

    def has(self, regex):
        return re.compile(regex, re.S).search(self.b) is not None

    def has_raw(self, regex):
        return re.compile(regex, re.S).search(self.text) is not None


class Rewriter:
    """Ordered list of (name, regex, replacement, must_fire). Fire counts are logged into evidence."""

    def __init__(self):
        self.rules = []
        self.log = {}

    def add(self, name, regex, repl, must_fire=False, flags=re.S | re.M):
        self.rules.append((name, re.compile(regex, flags), repl, must_fire))
        return self

    def apply(self, text):
        for name, rx, repl, must in self.rules:
            text, n = rx.subn(repl, text)
            self.log[name] = self.log.get(name, 0) + n
        return text

    def check(self):
        for name, rx, repl, must in self.rules:
            if must and self.log.get(name, 0) == 0:
                raise ExtractError('must-fire rewrite rule %s did not fire' % name)


def strip_comments(text):
    """Blank comments but keep strings (used for extracted text written to _work)."""
    return blank(text, keep_strings=True)
