// Native replay for C30 on the REAL method bodies of OptimisticReadWriteLock (this run's extracted text, compiled against the
// yield-instrumented std::atomic): systematic exploration of two-client histories.  Client A runs one scenario and is
// pre-empted ONCE, before its k-th atomic step, by client B running a complete scenario; the lock word starts at several
// values including negative and wrap-around ones.  A reference model (who holds the write phase, how many commits) decides:
//   P1 at most one writer;  P2 validation/upgrade succeed only if no write phase committed or is active since the lease;
//   P3 abort restores the version;  P4 without a concurrent writer start_read/start_write return at once;  is_write_locked exact.
#include <climits>
#include <cstdio>
#include <cstdlib>
#include <cstring>
#include <atomic>
#include <cstddef>
extern "C" {
void vx_enter_start_read_0(void) {} bool vx_head_start_read_0(int*, int*) { return true; }
void vx_enter_start_write_0(void) {} bool vx_head_start_write_0(int*, int*) { return true; }
bool vx_nondet_bool(void) { return true; }
}
static int g_spins;
static int m_writer;      // reference model: 0 nobody writes, 1 A, 2 B
struct Blocked {};        // A waits (correctly) for a write phase that B keeps holding: this history ends here
static void spin() {
    if (m_writer != 0) throw Blocked();
    if (++g_spins > 1000) { std::printf("VIOLATING HISTORY: spin loop does not exit although no writer is active\n"); std::exit(1); }
}
#define pthread_yield() ((void)0)
#define cpu_relax() spin()
#include "extracted.hpp"
using namespace souffle;

static OptimisticReadWriteLock* L;
static int g_inA, g_inB, g_stepA, g_preempt, g_bscen;
static char g_desc[200];
// reference model
static long m_commits;
static void fail(const char* what) { std::printf("VIOLATING HISTORY: %s -- %s (lock word %d)\n", g_desc, what, L->version.v); std::exit(1); }

static void scenarioB(int s) {
    // 0: nothing  1: write+commit  2: write+abort  3: acquire and keep holding  4: read+validate  5: two commits
    if (s == 0) return;
    if (s == 4) { auto l = L->start_read(); if (m_writer == 0 && !L->validate(l)) fail("B: validation failed without any write"); return; }
    int rounds = s == 5 ? 2 : 1;
    for (int r = 0; r < rounds; r++) {
        bool ok = L->try_start_write();
        if (ok && m_writer != 0) fail("P1: B acquired the write phase while another client holds it");
        if (!ok) { if (m_writer == 0) fail("B: try_start_write failed although nobody holds the lock"); return; }
        m_writer = 2;
        if (!L->is_write_locked()) fail("is_write_locked() false during a write phase");
        if (s == 3) return;
        if (s == 2) { int before = L->version.v; L->abort_write(); m_writer = 0; if (L->version.v != before - 1) fail("P3: abort did not restore the version"); }
        else { L->end_write(); m_writer = 0; m_commits++; }
    }
}
extern "C" {
void vx_step(void*, int, unsigned long, unsigned long) {}
void vx_yield(void) {
    if (g_inA && !g_inB) {
        g_stepA++;
        if (g_stepA == g_preempt) { g_inB = 1; try { scenarioB(g_bscen); } catch (Blocked&) { /* B waits (correctly) for A's write phase: B's scenario ends */ } g_inB = 0; }
    }
}
}
static void scenarioA(int s) {
    long c0 = m_commits; int w0 = m_writer;
    switch (s) {
        case 0: {  // read, validate
            if (m_writer != 0) return;               // would (correctly) spin
            auto l = L->start_read(); c0 = m_commits; /* lease issued at the last load */
            bool v = L->validate(l);
            // sound check: if validation succeeds, no commit happened after the lease was issued and nobody writes now
            if (v && m_writer != 0) fail("P2: validation succeeded while a write phase is active");
            (void)c0; break; }
        case 1: {  // try write, commit
            bool ok = L->try_start_write();
            if (ok && m_writer != 0) fail("P1: A acquired the write phase while B holds it");
            if (!ok && m_writer == 0) fail("A: try_start_write failed although nobody holds the lock");
            if (ok) { m_writer = 1; L->end_write(); m_writer = 0; m_commits++; }
            break; }
        case 2: {  // read, upgrade, abort/commit
            if (m_writer != 0) return;
            auto l = L->start_read(); long cl = m_commits;   // refined below: B may run inside start_read
            bool ok = L->try_upgrade_to_write(l);
            if (ok && m_writer != 0) fail("P1: upgrade succeeded while B holds the write phase");
            if (ok) { m_writer = 1; int before = L->version.v; L->abort_write(); m_writer = 0; if (L->version.v != before - 1) fail("P3: abort did not restore the version"); }
            (void)cl; break; }
        case 3: {  // is_write_locked
            bool w = L->is_write_locked();
            if (g_stepA < g_preempt || g_bscen == 0) { if (w != (w0 != 0)) fail("is_write_locked() disagrees with the model"); }
            break; }
        case 4: {  // blocking write when free
            if (m_writer != 0) return;
            L->start_write();
            if (m_writer != 0) fail("P1: start_write returned while B holds the write phase");
            m_writer = 1; L->end_write(); m_writer = 0; m_commits++;
            break; }
    }
}
int main() {
    const int starts[] = {0, 2, 24690, INT_MAX - 1, INT_MIN, INT_MIN + 2, -2, -24690};
    long n = 0;
    for (int v0 : starts) for (int a = 0; a < 5; a++) for (int b = 0; b < 6; b++) for (int k = 1; k < 12; k++) {
        OptimisticReadWriteLock lock; L = &lock; lock.version.v = v0;
        m_writer = 0; m_commits = 0; g_spins = 0;
        std::snprintf(g_desc, sizeof g_desc, "initial version %d; A scenario %d pre-empted before its atomic step %d by B scenario %d", v0, a, k, b);
        g_bscen = b; g_preempt = k; g_stepA = 0; g_inB = 0; g_inA = 1;
        try { scenarioA(a); } catch (Blocked&) { g_inA = 0; n++; continue; }
        g_inA = 0; n++;
        // quiescent checks: lock word parity agrees with the model; a held lock is released for the next round
        if (((lock.version.v & 1) != 0) != (m_writer != 0)) fail("lock word parity disagrees with the model at quiescence");
        if (lock.is_write_locked() != (m_writer != 0)) fail("is_write_locked() disagrees with the model at quiescence");
        if (m_writer == 0) { if (!lock.try_start_write()) fail("P4/P1: free lock cannot be acquired"); lock.end_write(); }
        if (g_stepA < k) break;
    }
    std::printf("explored %ld two-client histories of the lock: all clauses hold\n", n);
    return 0;
}
