// Native replay for C29/C28 on the REAL method bodies of DisjointSet (the text extracted from UnionFind.h on this run,
// compiled against the yield-instrumented std::atomic of /verif/stubs): systematic exploration of two-thread histories
//   [prefix: at most one completed union]  A = unionNodes(a,b)  pre-empted ONCE, before its k-th atomic step, by B = one or two unionNodes calls
// over 3 and 4 nodes.  After every atomic step of A the forest must be acyclic; at the end the partition must be exactly
// the closure of the requested unions and sameSet must agree with it.  exit 1 = violating history found (printed).
#include <cstdio>
#include <cstdlib>
#include <cstring>
#include <vector>
#include "vx_uf.h"
#include "extracted.hpp"
using namespace souffle;

static unsigned long g_blk[8];
static unsigned long g_n;
static int g_inA, g_inB, g_stepA, g_preempt;
static unsigned long g_bx, g_by; static long g_b2x = -1, g_b2y = -1;
static int g_preempt2; static unsigned long g_cx, g_cy;   // sameSet mode: second pre-emption point and its union
static DisjointSet* g_ds;
static std::vector<std::pair<unsigned long, unsigned long>> g_req;
static char g_desc[256];

static bool acyclic() {
    for (unsigned long i = 0; i < g_n; i++) {
        unsigned long c = i;
        for (unsigned long k = 0; k <= g_n; k++) c = g_blk[c] >> 8;
        if ((g_blk[c] >> 8) != c) return false;
    }
    return true;
}
static void fail(const char* what) {
    std::printf("VIOLATING HISTORY: %s -- %s\n  nodes:", g_desc, what);
    for (unsigned long i = 0; i < g_n; i++) std::printf(" %lu->(%lu,r%lu)", i, g_blk[i] >> 8, g_blk[i] & 255);
    std::printf("\n");
    std::exit(1);
}
extern "C" {
void* vx_uf_cell(unsigned long i) { if (i >= g_n) fail("node index out of range"); return &g_blk[i]; }
unsigned long vx_uf_size(void) { return g_n; }
unsigned long vx_uf_create(void) { return g_n++; }
void vx_enter_findNode_0(void) {} bool vx_head_findNode_0(unsigned long*) { return true; }
void vx_enter_sameSet_0(void) {} bool vx_head_sameSet_0(unsigned long*, unsigned long*) { return true; }
void vx_enter_unionNodes_0(void) {} bool vx_head_unionNodes_0(unsigned long*, unsigned long*) { return true; }
unsigned long h_findNode(void* ds, unsigned long x) { return ((DisjointSet*)ds)->findNode(x); }
bool vx_nondet_bool(void) { return true; }
void vx_step(void*, int, unsigned long, unsigned long) {
    if (!acyclic()) fail("parent links form a cycle after an atomic step");
}
void vx_yield(void) {
    if (g_inA && !g_inB) {
        g_stepA++;
        if (g_stepA > 400) fail("thread A does not terminate (livelock on a corrupted forest)");
        if (g_preempt2 > 0 && g_stepA == g_preempt2) { g_inB = 1; g_ds->unionNodes(g_cx, g_cy); g_inB = 0; }
        if (g_stepA == g_preempt) { g_inB = 1; g_ds->unionNodes(g_bx, g_by); if (g_b2x >= 0) g_ds->unionNodes((unsigned long)g_b2x, (unsigned long)g_b2y); g_inB = 0; }
    } else if (g_inB) {
        static int guard; if (++guard > 100000000) fail("thread B does not terminate");
    }
}
}
static unsigned long ref_find(std::vector<unsigned long>& p, unsigned long x) { while (p[x] != x) x = p[x]; return x; }

int main() {
    long histories = 0;
    for (unsigned long n = 3; n <= 4; n++) {
        std::vector<std::pair<unsigned long, unsigned long>> pairs;
        for (unsigned long a = 0; a < n; a++) for (unsigned long b = 0; b < n; b++) if (a != b) pairs.push_back({a, b});
        for (int pre = -1; pre < (int)pairs.size(); pre++)
        for (auto A : pairs) for (auto B : pairs) for (int b2 = -1; b2 < (int)pairs.size(); b2++) for (int k = 1; k < 60; k++) {
            DisjointSet ds; g_ds = &ds; g_n = 0;
            for (unsigned long i = 0; i < n; i++) ds.makeNode();
            g_req.clear();
            if (pre >= 0) { ds.unionNodes(pairs[pre].first, pairs[pre].second); g_req.push_back(pairs[pre]); }
            std::snprintf(g_desc, sizeof g_desc, "%lu nodes; prefix %s(%lu,%lu); A=unionNodes(%lu,%lu) pre-empted before its atomic step %d by B=unionNodes(%lu,%lu)%s",
                    n, pre >= 0 ? "union" : "none", pre >= 0 ? pairs[pre].first : 0ul, pre >= 0 ? pairs[pre].second : 0ul, A.first, A.second, k, B.first, B.second, b2 >= 0 ? " followed by a second union of B" : "");
            if (b2 >= 0) std::snprintf(g_desc + std::strlen(g_desc), sizeof g_desc - std::strlen(g_desc), " unionNodes(%lu,%lu)", pairs[b2].first, pairs[b2].second);
            g_bx = B.first; g_by = B.second; g_b2x = b2 >= 0 ? (long)pairs[b2].first : -1; g_b2y = b2 >= 0 ? (long)pairs[b2].second : -1; g_preempt = k; g_stepA = 0; g_inA = 1;
            ds.unionNodes(A.first, A.second);
            g_inA = 0;
            histories++;
            bool preempted = g_stepA >= k;
            g_req.push_back(A); if (preempted) { g_req.push_back(B); if (b2 >= 0) g_req.push_back(pairs[b2]); }
            std::vector<unsigned long> ref(n); for (unsigned long i = 0; i < n; i++) ref[i] = i;
            for (auto r : g_req) ref[ref_find(ref, r.first)] = ref_find(ref, r.second);
            if (!acyclic()) fail("parent links form a cycle");
            for (unsigned long i = 0; i < n; i++) for (unsigned long j = 0; j < n; j++) {
                bool want = ref_find(ref, i) == ref_find(ref, j);
                if (ds.sameSet(i, j) != want) fail(want ? "a requested union was lost (sameSet false for related nodes)" : "unrelated nodes were merged");
            }
            if (!preempted) break;   // k is beyond A's last atomic step
        }
    }
    // ---- sameSet answers: A = sameSet(a,b) pre-empted at two points by one union each; the answer must be correct at some instant
    // of the call: `true` needs a,b related at the end (classes only merge), `false` needs them unrelated at the start
    g_b2x = -1;
    for (unsigned long n = 3; n <= 4; n++) {
        std::vector<std::pair<unsigned long, unsigned long>> pairs;
        for (unsigned long a = 0; a < n; a++) for (unsigned long b = 0; b < n; b++) if (a != b) pairs.push_back({a, b});
        for (int pre = -1; pre < (int)pairs.size(); pre++)
        for (unsigned long a = 0; a < n; a++) for (unsigned long b = 0; b < n; b++)
        for (auto B1 : pairs) for (auto B2 : pairs) for (int k1 = 1; k1 < 30; k1++) for (int k2 = k1; k2 < 30; k2++) {
            DisjointSet ds; g_ds = &ds; g_n = 0;
            for (unsigned long i = 0; i < n; i++) ds.makeNode();
            std::vector<unsigned long> ref0(n); for (unsigned long i = 0; i < n; i++) ref0[i] = i;
            if (pre >= 0) { ds.unionNodes(pairs[pre].first, pairs[pre].second); ref0[ref_find(ref0, pairs[pre].first)] = ref_find(ref0, pairs[pre].second); }
            std::vector<unsigned long> ref2 = ref0;
            std::snprintf(g_desc, sizeof g_desc, "%lu nodes; prefix %s; A=sameSet(%lu,%lu) pre-empted before its atomic steps %d and %d by unionNodes(%lu,%lu) and unionNodes(%lu,%lu)",
                    n, pre >= 0 ? "one union" : "none", a, b, k1, k2, B1.first, B1.second, B2.first, B2.second);
            g_bx = B1.first; g_by = B1.second; g_cx = B2.first; g_cy = B2.second; g_preempt = k1; g_preempt2 = k2 > k1 ? k2 : 0; g_stepA = 0; g_inB = 0; g_inA = 1;
            bool ans = ds.sameSet(a, b);
            g_inA = 0; histories++;
            if (g_stepA >= k1) ref2[ref_find(ref2, B1.first)] = ref_find(ref2, B1.second);
            if (g_preempt2 > 0 && g_stepA >= k2) ref2[ref_find(ref2, B2.first)] = ref_find(ref2, B2.second);
            bool at_start = ref_find(ref0, a) == ref_find(ref0, b), at_end = ref_find(ref2, a) == ref_find(ref2, b);
            if (ans && !at_end) fail("sameSet answered true although the nodes are unrelated even at the end of the call");
            if (!ans && at_start) fail("sameSet answered false although the nodes were related at every instant of the call");
            if (g_stepA < k1) { k1 = 1000; break; }
            if (g_stepA < k2) break;
        }
    }
    g_preempt2 = 0;
    std::printf("explored %ld two-thread histories: forest acyclic and partition = closure of the requested unions in all of them\n", histories);
    return 0;
}
