// Native replay for C29 on the REAL UnionFind.h (compile with -fno-access-control): a two-thread history of unionNodes in
// which thread A is pre-empted between its two findNode calls and its rank reads.  A's steps are executed statement by
// statement exactly as in the body of DisjointSet::unionNodes (real findNode/get/b2r/updateRoot); thread B runs the real
// unionNodes.  exit 1 = the parent links form a cycle afterwards (property violated), 0 = forest intact.
#include "souffle/datastructure/UnionFind.h"
#include <cstdio>
using namespace souffle;
static bool acyclic(DisjointSet& ds, std::size_t n) {
    for (std::size_t i = 0; i < n; i++) {
        parent_t c = i;
        for (std::size_t k = 0; k <= n; k++) c = DisjointSet::b2p(ds.get(c));
        if (DisjointSet::b2p(ds.get(c)) != c) return false;   // after n+1 steps we must sit on a root
    }
    return true;
}
int main() {
    DisjointSet ds;
    for (int i = 0; i < 3; i++) ds.makeNode();
    ds.unionNodes(0, 1);                                       // B: 0 under 1, rank(1) = 1
    // A: unionNodes(1, 2) -- first half of one loop iteration
    parent_t x = ds.findNode(1), y = ds.findNode(2);
    ds.unionNodes(2, 1);                                       // B: 2 under 1 (node 2 now stores its parent's rank 1)
    // A resumes: the remaining statements of that iteration, in order
    bool linked = false;
    if (x != y) {
        block_t xs = ds.get(x), ys = ds.get(y);
        if (DisjointSet::b2p(xs) == x && DisjointSet::b2p(ys) == y) {
            // both still roots: this is where a repaired unionNodes continues; otherwise it retries (nothing to do here)
        }
        rank_t xrank = DisjointSet::b2r(xs), yrank = DisjointSet::b2r(ys);
        bool wouldRetry = false;
#ifdef VX_REPLAY_FIXED_SEMANTICS
        wouldRetry = !(DisjointSet::b2p(xs) == x && DisjointSet::b2p(ys) == y);
#endif
        if (!wouldRetry) {
            if (xrank > yrank || ((xrank == yrank) && x > y)) { std::swap(x, y); std::swap(xrank, yrank); }
            linked = ds.updateRoot(x, xrank, y, yrank);
        }
    }
    bool ok = acyclic(ds, 3);
    for (int i = 0; i < 3; i++) std::printf("node %d: parent %lu rank %d; ", i, (unsigned long)DisjointSet::b2p(ds.get(i)), (int)DisjointSet::b2r(ds.get(i)));
    std::printf("\nA's link %s; forest %s\n", linked ? "succeeded" : "did not happen", ok ? "acyclic" : "HAS A CYCLE");
    return ok ? 0 : 1;
}
