// Native replay for C18 (numfull) on the REAL fact loader: every field over the alphabet {0,1,9,f,x,b,+,-,' '} up to length 5 is loaded
// as a one-column unsigned (and signed) fact file through the real ReadStreamCSV; acceptance and value are compared with the reference below.
// exit 1 = a field is accepted although it is not a complete valid literal, or stored with a different value, or a valid one is rejected.
#include "souffle/RamTypes.h"
#include "souffle/RecordTable.h"
#include "souffle/SymbolTable.h"
#include "souffle/datastructure/RecordTableImpl.h"
#include "souffle/datastructure/SymbolTableImpl.h"
#include "souffle/io/ReadStreamCSV.h"
#include <cstdio>
#include <map>
#include <sstream>
#include <string>
using namespace souffle;
// Reference = the numfull contracts executed with the real std::stoul / std::stoi: which text and base reach the std parser
// (whole field; "0b" stripped for base 2, "-0b" rewritten to "-"), accepted iff it consumes the whole text and the value is in range.
// (Leniencies of the std parsers themselves — leading blanks, '+' — are the assumed part and therefore shared by both sides.)
static bool pre(const std::string& s, const char* p) { return s.rfind(p, 0) == 0; }
static bool valid(const std::string& f, bool isSigned, long long& val) {
    try {
        std::size_t pos = 0;
        if (!isSigned) {
            if (pre(f, "-")) return false;
            int base = pre(f, "0b") ? 2 : pre(f, "0x") ? 16 : 10;
            std::string text = base == 2 ? f.substr(2) : f;
            unsigned long v = std::stoul(text, &pos, base);
            if (pos != text.size() || v > 4294967295ul) return false;
            val = (long long)v; return true;
        }
        // a signed COLUMN is read by RamSignedFromString(element, &charactersRead): base 10, no prefix forms (static fact, ReadStreamCSV.h)
        int base = 10; std::string text = f;
        int v = std::stoi(text, &pos, base);
        if (pos != text.size()) return false;
        val = v; return true;
    } catch (...) { return false; }
}
int main() {
    const char alpha[] = {'0', '1', '9', 'f', 'x', 'b', '+', '-', ' '};
    SymbolTableImpl symtab; SpecializedRecordTable<0> rectab;
    long n = 0;
    for (int isSigned = 0; isSigned < 2; isSigned++)
    for (int len = 1; len <= 5; len++) {
        long total = 1; for (int i = 0; i < len; i++) total *= 9;
        for (long code = 0; code < total; code++) {
            std::string f; long c = code; for (int i = 0; i < len; i++) { f.push_back(alpha[c % 9]); c /= 9; }
            std::map<std::string, std::string> opts = {{"operation", "input"}, {"IO", "file"}, {"name", "r"}, {"attributeNames", "a"},
                    {"types", isSigned ? "{\"relation\": {\"arity\": 1, \"types\": [\"i:number\"]}}" : "{\"relation\": {\"arity\": 1, \"types\": [\"u:unsigned\"]}}"}};
            std::istringstream in(f + "\n");
            bool accepted = false; long long got = 0;
            try {
                ReadStreamCSV r(in, opts, symtab, rectab);
                struct Rel { long long v = 0; int n = 0; bool s; void insert(const RamDomain* d) { v = s ? (long long)d[0] : (long long)(RamUnsigned)d[0]; n++; } } rel; rel.s = isSigned;
                r.readAll(rel);
                accepted = rel.n == 1; got = rel.v;
            } catch (...) { accepted = false; }
            long long want = 0; bool ok = valid(f, isSigned, want);
            n++;
            if (accepted && !ok) { std::printf("field <%s> in a%s column is accepted (stored %lld) although it is not a complete valid literal\n", f.c_str(), isSigned ? " signed" : "n unsigned", got); return 1; }
            if (accepted && got != want) { std::printf("field <%s> stored as %lld instead of %lld\n", f.c_str(), got, want); return 1; }
            if (!accepted && ok) { std::printf("valid literal <%s> rejected\n", f.c_str()); return 1; }
        }
    }
    std::printf("%ld fields: accepted exactly the complete valid in-range literals, with their values\n", n);
    return 0;
}
