// Native replay for C08 on the REAL EquivalenceRelation.h: look-up with bound mask (b0,b1) and values (v0,v1), using the
// interpreter's encoding (unbound column = MIN_RAM_SIGNED in the lower bound).  exit 1 = the range returned differs from
// the set of closure pairs matching the bound columns.
#include "souffle/RamTypes.h"
#include "souffle/datastructure/EquivalenceRelation.h"
#include <cstdio>
#include <cstdlib>
#include <set>
#include <utility>
#include <vector>
using namespace souffle;
static bool g_compiled;   // use getBoundaries<k> (compiled path) instead of lower_bound (interpreter path)
static int run(int b0, int b1, RamDomain v0, RamDomain v1, bool member) {
    using T = Tuple<RamDomain, 2>;
    EquivalenceRelation<T> rel;
    std::vector<std::pair<RamDomain, RamDomain>> inserted;
    RamDomain w = (v0 == 5 ? 6 : 5);
    if (member) { rel.insert(v0, b1 ? v1 : w); inserted.push_back({v0, b1 ? v1 : w}); }
    RamDomain p = 7, q = 8;
    while (p == v0 || p == v1 || p == w || q == v0 || q == v1 || q == w) { p += 10; q += 10; }
    rel.insert(p, q); inserted.push_back({p, q});
    std::set<std::pair<RamDomain, RamDomain>> all, want, got;
    for (auto it = rel.begin(); it != rel.end(); ++it) all.insert({(*it)[0], (*it)[1]});
    for (auto& pr : all)
        if ((!b0 || pr.first == v0) && (!b1 || pr.second == v1)) want.insert(pr);
    T low{b0 ? v0 : MIN_RAM_SIGNED, b1 ? v1 : MIN_RAM_SIGNED};
    if (!g_compiled) { for (auto it = rel.lower_bound(low); it != rel.end(); ++it) got.insert({(*it)[0], (*it)[1]}); }
    else if (b0 && b1) { for (auto& t : rel.template getBoundaries<2>(low)) got.insert({t[0], t[1]}); }
    else if (b0) { for (auto& t : rel.template getBoundaries<1>(low)) got.insert({t[0], t[1]}); }
    else { for (auto& t : rel.template getBoundaries<0>(low)) got.insert({t[0], t[1]}); }
    std::printf("[%s value] relation has %zu pairs; look-up should yield %zu pairs, real lower_bound range yields %zu; ", member ? "member" : "non-member", all.size(), want.size(), got.size());
    if (got != want) { std::printf("WRONG RANGE\n"); return 1; }
    // a look-up must not change the relation: grow it and compare with the closure of what was inserted
    RamDomain p2 = p + 100, q2 = q + 100;
    rel.insert(p2, q2); inserted.push_back({p2, q2});
    std::set<std::pair<RamDomain, RamDomain>> after, ref;
    for (auto it = rel.begin(); it != rel.end(); ++it) after.insert({(*it)[0], (*it)[1]});
    for (auto& pr : inserted) { ref.insert({pr.first, pr.first}); ref.insert({pr.second, pr.second}); ref.insert(pr); ref.insert({pr.second, pr.first}); }
    std::printf("after the look-up and one more insert: %zu pairs, closure of the inserted pairs has %zu\n", after.size(), ref.size());
    return after == ref ? 0 : 1;
}
int main(int argc, char** argv) {
    if (argc < 5) return 2;
    g_compiled = argc > 5 && std::atoi(argv[5]) != 0;
    int b0 = std::atoi(argv[1]), b1 = std::atoi(argv[2]);
    RamDomain v0 = (RamDomain)std::atoll(argv[3]), v1 = (RamDomain)std::atoll(argv[4]);
    int rc = run(b0, b1, v0, v1, true);
    if (b0) rc |= run(b0, b1, v0, v1, false);
    return rc;
}
