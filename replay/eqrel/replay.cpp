// Native replay for C08 on the REAL EquivalenceRelation.h: look-up with bound mask (b0,b1) and values (v0,v1), using the
// interpreter's encoding (unbound column = MIN_RAM_SIGNED in the lower bound).  exit 1 = the range returned differs from
// the set of closure pairs matching the bound columns.
#include "souffle/RamTypes.h"
#include "souffle/datastructure/EquivalenceRelation.h"
#include <cstdio>
#include <cstdlib>
#include <set>
#include <utility>
#include <vector>
using namespace souffle;
static bool g_compiled;   // use getBoundaries<k> (compiled path) instead of lower_bound (interpreter path)
// closure of the inserted pairs (brute force)
static std::set<std::pair<RamDomain, RamDomain>> closure(const std::vector<std::pair<RamDomain, RamDomain>>& ins) {
    std::vector<RamDomain> el;
    for (auto& p : ins) { el.push_back(p.first); el.push_back(p.second); }
    std::set<std::pair<RamDomain, RamDomain>> c;
    for (auto x : el) c.insert({x, x});
    for (auto& p : ins) { c.insert(p); c.insert({p.second, p.first}); }
    bool ch = true;
    while (ch) {
        ch = false;
        for (auto& a : std::set<std::pair<RamDomain, RamDomain>>(c))
            for (auto& b : std::set<std::pair<RamDomain, RamDomain>>(c))
                if (a.second == b.first && c.insert({a.first, b.second}).second) ch = true;
    }
    return c;
}
template <typename R>
static std::set<std::pair<RamDomain, RamDomain>> lookup(const R& rel, int b0, int b1, RamDomain v0, RamDomain v1) {
    using T = Tuple<RamDomain, 2>;
    std::set<std::pair<RamDomain, RamDomain>> got;
    T low{b0 ? v0 : MIN_RAM_SIGNED, b1 ? v1 : MIN_RAM_SIGNED};
    typename R::operation_hints ctxt;   // the generated code (EqRel.h) and the interpreter both pass their own hints object
    if (!g_compiled) { for (auto it = rel.lower_bound(low, ctxt); it != rel.end(); ++it) got.insert({(*it)[0], (*it)[1]}); }
    else if (b0 && b1) { for (auto& t : rel.template getBoundaries<2>(low, ctxt)) got.insert({t[0], t[1]}); }
    else if (b0) { for (auto& t : rel.template getBoundaries<1>(low, ctxt)) got.insert({t[0], t[1]}); }
    else { for (auto& t : rel.template getBoundaries<0>(low, ctxt)) got.insert({t[0], t[1]}); }
    return got;
}
static int run(int b0, int b1, RamDomain v0, RamDomain v1, bool member) {
    using T = Tuple<RamDomain, 2>;
    EquivalenceRelation<T> rel;
    std::vector<std::pair<RamDomain, RamDomain>> inserted;
    RamDomain w = (v0 == 5 ? 6 : 5);
    if (member) { rel.insert(v0, b1 ? v1 : w); inserted.push_back({v0, b1 ? v1 : w}); }
    RamDomain p = 7, q = 8;
    while (p == v0 || p == v1 || p == w || q == v0 || q == v1 || q == w) { p += 10; q += 10; }
    rel.insert(p, q); inserted.push_back({p, q});
    int rc = 0;
    // two look-ups: straight after the first insertions (the per-class lists have never been built), and again after the class of v0
    // has grown (the lists built for the first look-up are stale).  Nothing else touches the relation in between.
    for (int phase = 0; phase < 2; ++phase) {
        if (phase == 1) {
            RamDomain z = 900; while (z == v0 || z == v1 || z == w || z == p || z == q) z += 10;
            if (member) { rel.insert(v0, z); inserted.push_back({v0, z}); } else { rel.insert(p, z); inserted.push_back({p, z}); }
        }
        std::set<std::pair<RamDomain, RamDomain>> want;
        for (auto& pr : closure(inserted))
            if ((!b0 || pr.first == v0) && (!b1 || pr.second == v1)) want.insert(pr);
        auto got = lookup(rel, b0, b1, v0, v1);
        std::printf("[%s value, look-up %d] closure of the inserted pairs yields %zu matching pairs, the real %s yields %zu; ", member ? "member" : "non-member", phase + 1,
                want.size(), g_compiled ? "getBoundaries<k>(entry, hints)" : "lower_bound(entry, hints)", got.size());
        if (got != want) { std::printf("WRONG RANGE\n"); rc = 1; } else std::printf("ok\n");
    }
    // a look-up must not change the relation: grow it and compare with the closure of what was inserted
    RamDomain p2 = p + 100, q2 = q + 100;
    rel.insert(p2, q2); inserted.push_back({p2, q2});
    std::set<std::pair<RamDomain, RamDomain>> after;
    for (auto it = rel.begin(); it != rel.end(); ++it) after.insert({(*it)[0], (*it)[1]});
    auto ref = closure(inserted);
    std::printf("after the look-ups and one more insert: %zu pairs, closure of the inserted pairs has %zu\n", after.size(), ref.size());
    return (after == ref ? 0 : 1) | rc;
}
int main(int argc, char** argv) {
    if (argc < 5) return 2;
    g_compiled = argc > 5 && std::atoi(argv[5]) != 0;
    int b0 = std::atoi(argv[1]), b1 = std::atoi(argv[2]);
    RamDomain v0 = (RamDomain)std::atoll(argv[3]), v1 = (RamDomain)std::atoll(argv[4]);
    int rc = run(b0, b1, v0, v1, true);
    if (b0) rc |= run(b0, b1, v0, v1, false);
    return rc;
}
