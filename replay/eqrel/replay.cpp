// Native replay for C08 on the REAL EquivalenceRelation.h: look-up with bound mask (b0,b1) and values (v0,v1), using the
// interpreter's encoding (unbound column = MIN_RAM_SIGNED in the lower bound).  exit 1 = the range returned differs from
// the set of closure pairs matching the bound columns.
#include "souffle/RamTypes.h"
#include "souffle/datastructure/EquivalenceRelation.h"
#include <cstdio>
#include <cstdlib>
#include <set>
#include <utility>
using namespace souffle;
int main(int argc, char** argv) {
    if (argc < 5) return 2;
    int b0 = std::atoi(argv[1]), b1 = std::atoi(argv[2]);
    RamDomain v0 = (RamDomain)std::atoll(argv[3]), v1 = (RamDomain)std::atoll(argv[4]);
    using T = Tuple<RamDomain, 2>;
    EquivalenceRelation<T> rel;
    // a relation in which v0 (and v1) occur, plus an unrelated class
    RamDomain w = (v0 == 5 ? 6 : 5);
    rel.insert(v0, b1 ? v1 : w);
    RamDomain p = 7, q = 8;
    while (p == v0 || p == v1 || p == w || q == v0 || q == v1 || q == w) { p += 10; q += 10; }
    rel.insert(p, q);
    std::set<std::pair<RamDomain, RamDomain>> all, want, got;
    for (auto it = rel.begin(); it != rel.end(); ++it) all.insert({(*it)[0], (*it)[1]});
    for (auto& pr : all)
        if ((!b0 || pr.first == v0) && (!b1 || pr.second == v1)) want.insert(pr);
    T low{b0 ? v0 : MIN_RAM_SIGNED, b1 ? v1 : MIN_RAM_SIGNED};
    for (auto it = rel.lower_bound(low); it != rel.end(); ++it) got.insert({(*it)[0], (*it)[1]});
    std::printf("relation has %zu pairs; look-up should yield %zu pairs, real lower_bound range yields %zu\n", all.size(), want.size(), got.size());
    return got == want ? 0 : 1;
}
