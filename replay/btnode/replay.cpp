// Native replay for C25 (node level): the REAL btree_set / btree_multiset of BTree.h with small nodes, driven through splits, rebalancing
// and cascades (ascending, descending, zig-zag and pseudo-random insertion orders; with and without hints; the IS_PARALLEL code path when
// built with -fopenmp), compared with std::set / std::multiset after every batch: membership, strictly ascending iteration, size, bounds,
// and the tree's own structural check().  exit 1 = the tree disagrees with the sorted-set model.
#include "souffle/datastructure/BTree.h"
#include <algorithm>
#include <cstdio>
#include <cstdlib>
#include <set>
#include <vector>
using namespace souffle;
template <unsigned B, typename Gen>
static int drive(const char* what, Gen gen, int n) {
    using S = btree_set<int, detail::comparator<int>, std::allocator<int>, B>;
    S t; std::set<int> m; typename S::operation_hints h;
    int bad = 0;
    for (int i = 0; i < n && !bad; ++i) {
        int k = gen(i);
        bool a = (i & 1) ? t.insert(k, h) : t.insert(k);
        bool b = m.insert(k).second;
        if (a != b) { std::printf("%s, block %u: insert(%d) reported %d, model %d\n", what, B, k, (int)a, (int)b); bad = 1; }
        if ((i % 7) == 0 || i == n - 1) {
            if (t.size() != m.size()) { std::printf("%s, block %u: size %zu after %d insertions, model %zu\n", what, B, t.size(), i + 1, m.size()); bad = 1; }
            std::vector<int> got(t.begin(), t.end()), want(m.begin(), m.end());
            if (got != want) { std::printf("%s, block %u: iteration differs from the sorted model after %d insertions (%zu vs %zu elements)\n", what, B, i + 1, got.size(), want.size()); bad = 1; }
            for (int q = k - 3; q <= k + 3 && !bad; ++q) {
                if (t.contains(q) != (m.count(q) > 0)) { std::printf("%s, block %u: contains(%d) = %d, model %d\n", what, B, q, (int)t.contains(q), (int)(m.count(q) > 0)); bad = 1; }
                auto lb = t.lower_bound(q); auto mlb = m.lower_bound(q);
                if ((lb == t.end()) != (mlb == m.end()) || (lb != t.end() && *lb != *mlb)) { std::printf("%s, block %u: lower_bound(%d) differs\n", what, B, q); bad = 1; }
            }
            if (!t.check()) { std::printf("%s, block %u: structural check() failed after %d insertions\n", what, B, i + 1); bad = 1; }
        }
    }
    return bad;
}
template <unsigned B>
static int all() {
    int bad = 0;
    bad |= drive<B>("ascending", [](int i) { return i; }, 400);
    bad |= drive<B>("descending", [](int i) { return 1000 - i; }, 400);
    bad |= drive<B>("zig-zag", [](int i) { return (i & 1) ? 500 + i : 500 - i; }, 400);
    bad |= drive<B>("pseudo-random", [](int i) { return (int)((i * 7919u + 13u) % 1009u); }, 600);
    bad |= drive<B>("with duplicates", [](int i) { return (int)((i * 31u) % 97u); }, 400);
    return bad;
}
int main() {
    int bad = all<48>() | all<64>() | all<96>() | all<256>();
    std::printf(bad ? "DISAGREES with the sorted-set model\n" : "agrees with the sorted-set model on all runs\n");
    return bad ? 1 : 0;
}
