// Native replay for C18 on the REAL header: exit 1 = property violated on this input, 0 = holds, 2 = usage
#include "souffle/utility/StringUtil.h"
#include <cmath>
#include <cstdio>
#include <cstdlib>
#include <string>
int main(int argc, char** argv) {
    if (argc < 3) return 2;
    std::string mode = argv[1], lit = argv[2];
    if (mode == "f") {
        double want = std::strtod(lit.c_str(), nullptr);
        try {
            souffle::RamFloat got = souffle::RamFloatFromString(lit);
            if (std::isinf(got) && !std::isinf(want)) { std::printf("finite literal %s accepted and stored as %f\n", lit.c_str(), (double)got); return 1; }
            std::printf("stored %g\n", (double)got);
            return 0;
        } catch (...) { std::printf("rejected\n"); return 0; }
    }
    if (mode == "u" || mode == "c") {
        unsigned long long want = std::strtoull(lit.c_str(), nullptr, 10);
        try {
            std::size_t pos = 0;
            souffle::RamUnsigned got = souffle::RamUnsignedFromString(lit, &pos);
            if ((unsigned long long)got != want) {
                std::printf("accepted and stored %llu instead of %llu (silently different value)\n", (unsigned long long)got, want);
                return 1;
            }
            std::printf("stored %llu\n", (unsigned long long)got);
            return 0;
        } catch (...) {
            if (want <= 4294967295ull) { std::printf("rejected a representable value %llu\n", want); return 1; }
            std::printf("rejected (out of range)\n");
            return 0;
        }
    } else {
        long long want = std::strtoll(lit.c_str(), nullptr, 10);
        try {
            std::size_t pos = 0;
            souffle::RamSigned got = souffle::RamSignedFromString(lit, &pos);
            if ((long long)got != want) { std::printf("accepted and stored %lld instead of %lld\n", (long long)got, want); return 1; }
            std::printf("stored %lld\n", (long long)got);
            return 0;
        } catch (...) {
            if (want >= -2147483648ll && want <= 2147483647ll) { std::printf("rejected a representable value %lld\n", want); return 1; }
            std::printf("rejected (out of range)\n");
            return 0;
        }
    }
}
