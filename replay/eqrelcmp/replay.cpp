// Replay for C28 (EqrelMapComparator): evaluate the real comparator on one pair of keys and, through it, the real equivalence relation.
#include "souffle/datastructure/EquivalenceRelation.h"
#include "souffle/utility/MiscUtil.h"
#include <cstdio>
#include <cstdlib>
#include <utility>
int main(int argc, char** argv) {
    if (argc < 3) return 2;
    long a = std::atol(argv[1]), b = std::atol(argv[2]);
    using P = std::pair<souffle::RamDomain, uint64_t>;
    souffle::EqrelMapComparator<P> c;
    P x{(souffle::RamDomain)a, 1}, y{(souffle::RamDomain)b, 2};
    int r = c(x, y);
    bool ok = ((r < 0) == (x.first < y.first)) && ((r == 0) == (x.first == y.first)) && ((r > 0) == (x.first > y.first));
    souffle::EquivalenceRelation<souffle::Tuple<souffle::RamDomain, 2>> rel;
    rel.insert(x.first, y.first);
    bool member = rel.contains(x.first, y.first) && rel.contains(y.first, x.first);
    std::printf("keys (%ld, %ld): comparator gives %d (%s); after insert(a,b): contains(a,b)&&contains(b,a) = %d\n", a, b, r, ok ? "consistent with <" : "NOT consistent with <", (int)member);
    return (ok && member) ? 0 : 1;
}
