// C25 demonstration, deterministic part (single-threaded, white-box).
//
// btree::insert starts a descent like this (BTree.h, parallel code path):
//
//      auto root_lease = root_lock.start_read();
//      cur = root;
//      cur_lease = cur->lock.start_read();
//      if (root_lock.end_read(root_lease)) break;      // else: retry
//
// i.e. the root pointer that was read is only used if root_lock has not been
// written since. Every insert that REPLACES the root node therefore has to leave
// root_lock at a new version. This program replays exactly that protocol from a
// single thread: "insert #2" performs the first two steps, then "insert #1" runs
// to completion, then "insert #2" resumes with the last two steps. Whenever
// insert #1 replaced the root, insert #2 must be told to retry.
#include "souffle/datastructure/BTree.h"

#include <cstdio>
#include <random>
#include <vector>

#ifndef IS_PARALLEL
#error "must be compiled with -fopenmp (parallel B-tree code path)"
#endif

using namespace souffle;
using tree_t = btree_set<int, detail::comparator<int>, std::allocator<int>, 16>;

struct probe_tree : public tree_t {
    // returns the number of root replacements that a stalled insert would have missed
    int replay(const std::vector<int>& keys, const char* label) {
        int replaced = 0, missed = 0;
        for (int k : keys) {
            // -- insert #2: begin descent, then stall
            auto root_lease = this->root_lock.start_read();
            auto stale = this->root;

            // -- insert #1: runs to completion
            this->insert(k);

            if (stale == nullptr) continue;  // (empty tree: insert #2 would not be on this path)

            // -- insert #2: resume
            auto cur_lease = stale->lock.start_read();
            (void)cur_lease;
            bool accepted = this->root_lock.end_read(root_lease);

            if (stale != this->root) {
                ++replaced;
                if (accepted) {
                    ++missed;
                    std::printf(
                            "  [%s] insert(%d) replaced the root (tree depth now %zu), but a stalled insert "
                            "holding the old root passes root_lock validation\n",
                            label, k, this->getDepth());
                }
            }
        }
        std::printf("  [%s] %zu keys, %d root replacements, %d not signalled via root_lock\n", label,
                this->size(), replaced, missed);
        return missed;
    }
};

int main() {
    int missed = 0;

    std::vector<int> asc, desc, rnd;
    for (int i = 0; i < 3000; ++i) asc.push_back(i);
    for (int i = 3000; i > 0; --i) desc.push_back(i);
    rnd = asc;
    std::mt19937 rng(42);
    std::shuffle(rnd.begin(), rnd.end(), rng);

    {
        probe_tree t;
        missed += t.replay(asc, "ascending");
    }
    {
        probe_tree t;
        missed += t.replay(desc, "descending");
    }
    {
        probe_tree t;
        missed += t.replay(rnd, "random");
    }

    if (missed) {
        std::printf("VIOLATION: %d root replacement(s) invisible to concurrently starting inserts\n", missed);
        return 1;
    }
    std::printf("OK: every root replacement invalidates outstanding root leases\n");
    return 0;
}
