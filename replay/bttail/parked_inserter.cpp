// Deterministic two-thread interleaving demo for souffle::btree_set (property C25).
//
// Thread B starts an insert, takes its optimistic read lease on a full leaf and is
// parked inside the in-node search (via a hook in the user supplied comparator).
// Thread A then performs a complete insert that splits that very leaf.  After A is
// done, B resumes.  B's lease is stale now, so B must notice and start over.
// Afterwards the tree is compared against a std::set model.
#include "souffle/datastructure/BTree.h"

#include <atomic>
#include <cstdio>
#include <set>
#include <thread>
#include <vector>

#ifndef IS_PARALLEL
#error "compile with -fopenmp so that the concurrent code path of the b-tree is used"
#endif

namespace {

// 0 = hooks off, 1 = armed, 2 = B parked, 3 = released
std::atomic<int> stage{0};
std::atomic<int> parkKey{0};
thread_local bool isB = false;

void hook(int a, int b) {
    if (!isB || stage.load() != 1) return;
    int p = parkKey.load();
    if (a != p && b != p) return;
    stage.store(2);
    while (stage.load() != 3) std::this_thread::yield();
}

struct HookedCmp {
    int operator()(const int& a, const int& b) const {
        hook(a, b);
        return (a > b) - (a < b);
    }
    bool less(const int& a, const int& b) const {
        hook(a, b);
        return a < b;
    }
    bool equal(const int& a, const int& b) const {
        hook(a, b);
        return a == b;
    }
};

using tree_t = souffle::btree_set<int, HookedCmp>;

int failures = 0;
#define CHECK(c, ...)                \
    if (!(c)) {                      \
        ++failures;                  \
        std::printf("    VIOLATION: " __VA_ARGS__); \
        std::printf("\n");           \
    }

// number of ascending insertions after which the `splits`-th growth of the node count happens
int fillCount(int splits) {
    tree_t t;
    std::size_t nodes = 0;
    int seen = 0;
    for (int i = 1; i < 100000; ++i) {
        t.insert(i * 10);
        std::size_t n = t.getNumNodes();
        if (n > nodes && nodes != 0) {
            if (++seen == splits) return i - 1;
        }
        nodes = n;
    }
    return -1;
}

void scenario(int splits, bool useHints) {
    std::printf("scenario: leaf split #%d, %s operation hints\n", splits, useHints ? "with" : "without");
    int failuresAtStart = failures;
    int n = fillCount(splits);
    tree_t t;
    std::set<int> model;
    tree_t::operation_hints hintsA, hintsB;

    // fill: the next ascending insert will split the right-most (full) leaf
    for (int i = 1; i <= n; ++i) {
        bool r = useHints ? t.insert(i * 10, hintsB) : t.insert(i * 10);
        CHECK(r, "fresh key %d reported as duplicate", i * 10);
        model.insert(i * 10);
    }
    std::size_t nodesBefore = t.getNumNodes();
    int max = n * 10;
    int keyA = max + 10;  // appended => splits the leaf, ends up in the new sibling
    int keyB = max - 5;   // belongs between the last two keys of the full leaf

    parkKey.store(max);
    stage.store(1);
    bool resB = false, resA = false;
    std::thread B([&] {
        isB = true;
        resB = useHints ? t.insert(keyB, hintsB) : t.insert(keyB);
    });
    while (stage.load() != 2) std::this_thread::yield();  // B holds its lease and is parked
    resA = useHints ? t.insert(keyA, hintsA) : t.insert(keyA);
    bool didSplit = t.getNumNodes() > nodesBefore;
    stage.store(3);
    B.join();
    stage.store(0);
    model.insert(keyA);
    model.insert(keyB);

    CHECK(didSplit, "setup problem: A's insert did not split the leaf");
    CHECK(resA, "insert(%d) by A did not report success", keyA);
    CHECK(resB, "insert(%d) by B did not report success", keyB);
    CHECK(t.size() == model.size(), "size() = %zu, expected %zu", (std::size_t)t.size(), model.size());

    std::vector<int> content(t.begin(), t.end());
    bool ascending = true;
    for (std::size_t i = 1; i < content.size(); ++i) ascending = ascending && content[i - 1] < content[i];
    CHECK(ascending, "iteration is not strictly ascending");
    CHECK(content == std::vector<int>(model.begin(), model.end()), "iteration differs from sorted-set model");

    for (int k = 0; k <= keyA + 10; ++k) {
        bool in = model.count(k) != 0;
        CHECK(t.contains(k) == in, "contains(%d) = %d, expected %d", k, (int)t.contains(k), (int)in);
        auto f = t.find(k);
        CHECK((f != t.end()) == in && (!in || *f == k), "find(%d) wrong", k);
        auto ml = model.lower_bound(k);
        auto tl = t.lower_bound(k);
        CHECK((tl == t.end()) == (ml == model.end()) && (tl == t.end() || *tl == *ml), "lower_bound(%d) wrong", k);
        auto mu = model.upper_bound(k);
        auto tu = t.upper_bound(k);
        CHECK((tu == t.end()) == (mu == model.end()) && (tu == t.end() || *tu == *mu), "upper_bound(%d) wrong", k);
        if (failures - failuresAtStart > 8) break;  // keep the report short
    }

    for (std::size_t c : {1u, 2u, 3u, 7u, 64u}) {
        std::vector<int> viaChunks;
        for (const auto& chunk : t.getChunks(c))
            for (int x : chunk) viaChunks.push_back(x);
        CHECK(viaChunks == std::vector<int>(model.begin(), model.end()), "getChunks(%zu) does not partition the set", c);
    }
}

}  // namespace

int main() {
    for (int splits : {1, 2, 3})
        for (bool hints : {false, true}) scenario(splits, hints);
    if (failures) {
        std::printf("FAIL: %d violation(s) of the sorted-set model\n", failures);
        return 1;
    }
    std::printf("PASS: tree agrees with the sorted-set model in all scenarios\n");
    return 0;
}
