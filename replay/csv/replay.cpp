// Native replay for C17 on the REAL WriteStreamCSV.h / ReadStreamCSV.h: write a one-symbol-column relation to a file with
// the given options, read it back, compare.  args: rfc4180(0/1) delimiter-byte symbol-hex.  exit 1 = round trip differs.
#include "souffle/RamTypes.h"
#include "souffle/RecordTable.h"
#include "souffle/SymbolTable.h"
#include "souffle/datastructure/RecordTableImpl.h"
#include "souffle/datastructure/SymbolTableImpl.h"
#include "souffle/io/ReadStreamCSV.h"
#include "souffle/io/WriteStreamCSV.h"
#include <cstdio>
#include <cstdlib>
#include <map>
#include <array>
#include <string>
#include <vector>
using namespace souffle;
int main(int argc, char** argv) {
    if (argc < 4) return 2;
    bool rfc = std::atoi(argv[1]) != 0;
    std::string delim(1, (char)std::atoi(argv[2]));
    std::string hex = argv[3], sym;
    for (std::size_t i = 0; i + 1 < hex.size(); i += 2) sym.push_back((char)std::stoi(hex.substr(i, 2), nullptr, 16));
    SymbolTableImpl symtab; SpecializedRecordTable<0> rectab;
    std::map<std::string, std::string> opts = {{"operation", "output"}, {"IO", "file"}, {"filename", "vx_c17_replay.csv"}, {"name", "r"},
            {"delimiter", delim}, {"rfc4180", rfc ? "true" : "false"}, {"attributeNames", "a\tb"},
            {"types", "{\"relation\": {\"arity\": 2, \"types\": [\"s:symbol\", \"i:number\"]}}"}};
    std::vector<std::array<RamDomain, 2>> rel = {{{symtab.encode(sym), 7}}};
    {
        WriteFileCSV w(opts, symtab, rectab);
        w.writeAll(rel);
    }
    opts["operation"] = "input";
    SymbolTableImpl symtab2;
    try {
        ReadFileCSV r(opts, symtab2, rectab);
        struct Rel { std::vector<std::array<RamDomain, 2>> v; void insert(const RamDomain* d) { v.push_back({{d[0], d[1]}}); } } in;
        r.readAll(in);
        if (in.v.size() != 1) { std::printf("%zu tuples read back instead of 1\n", in.v.size()); return 1; }
        auto t = in.v[0];
        std::string back = symtab2.decode(t[0]);
        if (back != sym || t[1] != 7) { std::printf("wrote symbol of length %zu, read back length %zu: \"%s\"\n", sym.size(), back.size(), back.c_str()); return 1; }
    } catch (std::exception& e) { std::printf("reading back failed: %s\n", e.what()); return 1; }
    std::printf("round trip ok\n");
    return 0;
}
