// Native replay for C17 (csv.roundtrip.nested) on the REAL headers: a symbol nested in a record is written by
// WriteStreamCSV::outputSymbol(dest, v, fieldValue=false) inside the RFC 4180 quoted record field, un-doubled by
// ReadStreamCSV::nextElement and read by ReadStream::readQuotedSymbol.  arg: symbol-hex.  exit 1 = read back differently.
#include "souffle/RamTypes.h"
#include "souffle/RecordTable.h"
#include "souffle/SymbolTable.h"
#include "souffle/datastructure/RecordTableImpl.h"
#include "souffle/datastructure/SymbolTableImpl.h"
#include "souffle/io/ReadStreamCSV.h"
#include "souffle/io/WriteStreamCSV.h"
#include <cstdio>
#include <fstream>
#include <map>
#include <sstream>
#include <string>
using namespace souffle;
struct W : WriteFileCSV {
    using WriteFileCSV::WriteFileCSV;
    std::string enc(const std::string& v) { std::ostringstream o; o << '"' << '['; outputSymbol(o, v, false); o << ']' << '"'; return o.str(); }
};
struct R : ReadFileCSV {
    using ReadFileCSV::ReadFileCSV;
    std::string dec(std::string line) { std::size_t start = 0; bool crlf = false; std::string e = nextElement(line, start, crlf); std::size_t used = 0; return readQuotedSymbol(e, 1, &used); }
};
int main(int argc, char** argv) {
    if (argc < 2) return 2;
    std::string hex = argv[1], sym;
    for (std::size_t i = 0; i + 1 < hex.size(); i += 2) sym.push_back((char)std::stoi(hex.substr(i, 2), nullptr, 16));
    SymbolTableImpl symtab; SpecializedRecordTable<0> rectab;
    { std::ofstream f("vx_c17_nested.csv"); }
    std::map<std::string, std::string> opts = {{"operation", "output"}, {"IO", "file"}, {"filename", "vx_c17_nested.csv"}, {"name", "r"}, {"rfc4180", "true"},
            {"attributeNames", "a"}, {"types", "{\"relation\": {\"arity\": 1, \"types\": [\"s:symbol\"]}}"}};
    std::string text;
    { W w(opts, symtab, rectab); text = w.enc(sym); }
    opts["operation"] = "input";
    std::string back;
    try { R r(opts, symtab, rectab); back = r.dec(text); } catch (std::exception& e) { std::printf("reading <%s> failed: %s\n", text.c_str(), e.what()); return 1; }
    std::remove("vx_c17_nested.csv");
    if (back != sym) { std::printf("nested symbol of length %zu written as %s and read back as \"%s\" (length %zu)\n", sym.size(), text.c_str(), back.c_str(), back.size()); return 1; }
    std::printf("nested round trip ok: %s\n", text.c_str());
    return 0;
}
