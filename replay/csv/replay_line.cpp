// Native replay for C18 (csv.nextElement) on the REAL ReadStreamCSV.h, built with AddressSanitizer: load one line as a fact
// file of three symbol columns.  exit 0 = loaded or rejected with an error; any sanitizer report / crash = violation.
#include "souffle/RamTypes.h"
#include "souffle/RecordTable.h"
#include "souffle/SymbolTable.h"
#include "souffle/datastructure/RecordTableImpl.h"
#include "souffle/datastructure/SymbolTableImpl.h"
#include "souffle/io/ReadStreamCSV.h"
#include <array>
#include <cstdio>
#include <cstdlib>
#include <map>
#include <sstream>
#include <string>
#include <vector>
using namespace souffle;
int main(int argc, char** argv) {
    if (argc < 4) return 2;
    bool rfc = std::atoi(argv[1]) != 0;
    std::string delim(1, (char)std::atoi(argv[2]));
    std::string hex = argv[3], line;
    for (std::size_t i = 0; i + 1 < hex.size(); i += 2) line.push_back((char)std::stoi(hex.substr(i, 2), nullptr, 16));
    SymbolTableImpl symtab; SpecializedRecordTable<0> rectab;
    std::map<std::string, std::string> opts = {{"operation", "input"}, {"IO", "file"}, {"name", "r"}, {"delimiter", delim},
            {"rfc4180", rfc ? "true" : "false"}, {"attributeNames", "a\tb\tc"},
            {"types", "{\"relation\": {\"arity\": 3, \"types\": [\"s:symbol\", \"s:symbol\", \"s:symbol\"]}}"}};
    std::istringstream in(line + "\n");
    try {
        ReadStreamCSV r(in, opts, symtab, rectab);
        struct Rel { std::size_t n = 0; void insert(const RamDomain*) { ++n; } } rel;
        r.readAll(rel);
        std::printf("loaded %zu tuple(s)\n", rel.n);
    } catch (std::exception& e) { std::printf("rejected: %s\n", e.what()); }
    return 0;
}
