// Native replay for C17 (gzip layer) on the REAL gzfstream.h with the real zlib: write a byte stream that crosses the
// 64 KiB buffer several times through ogzfstream, read it back through igzfstream, compare.  exit 1 = stream differs.
#include "souffle/io/gzfstream.h"
#include <cstdio>
#include <string>
int main() {
    const char* fn = "vx_c17_gz_replay.gz";
    std::string data;
    unsigned x = 12345;
    for (int i = 0; i < 300000; i++) { x = x * 1103515245u + 12345u; data.push_back((char)('a' + (x >> 16) % 26)); if (i % 37 == 36) data.push_back('\n'); }
    {
        souffle::gzfstream::ogzfstream out(fn);
        for (char c : data) out.put(c);          // byte-wise: every overflow() is exercised
    }
    std::string back;
    {
        souffle::gzfstream::igzfstream in(fn);
        char c;
        while (in.get(c)) back.push_back(c);
    }
    std::remove(fn);
    if (back == data) { std::printf("gzip round trip of %zu bytes ok\n", data.size()); return 0; }
    std::size_t i = 0; while (i < back.size() && i < data.size() && back[i] == data[i]) i++;
    std::printf("gzip round trip differs: wrote %zu bytes, read back %zu, first difference at offset %zu\n", data.size(), back.size(), i);
    return 1;
}
