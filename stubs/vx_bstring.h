// Bounded std::string scaffold (TRUSTED): capacity VX_CAP, operator[] asserts index <= size() (std::string's contract),
// push_back asserts the capacity.  Used by the bounded string units (csv, numparse.full).
#ifndef VX_BSTRING_H
#define VX_BSTRING_H
#include <cstddef>
#ifndef VX_CAP
#define VX_CAP 16
#endif
namespace std {
struct string {
    char d[VX_CAP];
    size_t n;
    string() : n(0) { d[0] = 0; }
    string(const string& o) : n(o.n) { for (size_t i = 0; i < VX_CAP; i = i + 1) d[i] = o.d[i]; }
    string& operator=(const string& o) { n = o.n; for (size_t i = 0; i < VX_CAP; i = i + 1) d[i] = o.d[i]; return *this; }
    string(const char* s) : n(0) { while (s[n] != 0) { d[n] = s[n]; n = n + 1; } d[n] = 0; }
    size_t length() const { return n; }
    size_t size() const { return n; }
    const char* begin() const { return d; }
    const char* end() const { return d + n; }
    // std::string::operator[]: defined for i <= size() (s[size()] is the terminator); anything beyond is out of bounds
    char& operator[](size_t i) { __CPROVER_assert(i <= n, "string index <= size()"); return d[i]; }
    const char& operator[](size_t i) const { __CPROVER_assert(i <= n, "string index <= size()"); return d[i]; }
    void reserve(size_t) {}
    void push_back(char c) { __CPROVER_assert(n + 1 < VX_CAP, "bounded string: capacity"); d[n] = c; n = n + 1; d[n] = 0; }
    size_t find(const string& pat, size_t pos) const {
        for (size_t i = pos; i + pat.n <= n; i = i + 1) {
            bool ok = true;
            for (size_t j = 0; j < pat.n; j = j + 1) if (d[i + j] != pat.d[j]) ok = false;
            if (ok) return i;
        }
        return (size_t)-1;
    }
    size_t find(char c) const {
        for (size_t i = 0; i < n; i = i + 1) if (d[i] == c) return i;
        return (size_t)-1;
    }
    // substr(pos, len = npos): characters [pos, min(pos+len, size())); pos > size() is out_of_range in std::string
    string substr(size_t pos, size_t len = (size_t)-1) const {
        __CPROVER_assert(pos <= n, "substr position <= size()");
        string r;
        for (size_t i = pos; i < n && i - pos < len; i = i + 1) r.push_back(d[i]);
        return r;
    }
    static const size_t npos = (size_t)-1;
};
inline string vx_concat(const char* a, const string& b) {
    string r(a);
    for (size_t i = 0; i < b.n; i = i + 1) r.push_back(b.d[i]);
    return r;
}
}
#endif
