// R10: ramBitCast<T>(e) -> vx_bitcast_T(e); ramBitCast(e) -> vx_bitcast_RamDomain(e).  Overload set = union bit casts
// between the 32-bit Ram types (TRUSTED; the real 4-line ramBitCast template is cross-checked natively each run).
#ifndef VX_BITCAST_H
#define VX_BITCAST_H
#include "ramtypes.hpp"
namespace souffle {
union vx_u32 { int i; unsigned u; float f; };
inline RamDomain vx_bitcast_RamDomain(int x) { return x; }
inline RamDomain vx_bitcast_RamDomain(unsigned x) { vx_u32 c; c.u = x; return c.i; }
inline RamDomain vx_bitcast_RamDomain(float x) { vx_u32 c; c.f = x; return c.i; }
inline RamSigned vx_bitcast_RamSigned(int x) { return x; }
inline RamSigned vx_bitcast_RamSigned(unsigned x) { vx_u32 c; c.u = x; return c.i; }
inline RamSigned vx_bitcast_RamSigned(float x) { vx_u32 c; c.f = x; return c.i; }
inline RamUnsigned vx_bitcast_RamUnsigned(int x) { vx_u32 c; c.i = x; return c.u; }
inline RamUnsigned vx_bitcast_RamUnsigned(unsigned x) { return x; }
inline RamUnsigned vx_bitcast_RamUnsigned(float x) { vx_u32 c; c.f = x; return c.u; }
inline RamFloat vx_bitcast_RamFloat(int x) { vx_u32 c; c.i = x; return c.f; }
inline RamFloat vx_bitcast_RamFloat(unsigned x) { vx_u32 c; c.u = x; return c.f; }
inline RamFloat vx_bitcast_RamFloat(float x) { return x; }
}
#endif
