// compiled natively (g++, real libstdc++) on every run: the R6 overloads equal the std values
#include <limits>
#include "vx_limits.h"
#define CK(T) static_assert(vx_limits_min((T)0) == std::numeric_limits<T>::min(), #T " min"); \
              static_assert(vx_limits_max((T)0) == std::numeric_limits<T>::max(), #T " max"); \
              static_assert(vx_limits_lowest((T)0) == std::numeric_limits<T>::lowest(), #T " lowest");
CK(int) CK(long) CK(unsigned) CK(unsigned long) CK(float) CK(double)
int main() { return 0; }
