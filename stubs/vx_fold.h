// R15: std::max({a,b,c}) / std::min({...}) (initializer_list overloads) -> left folds of the two-argument forms, which is
// what libstdc++'s max_element/min_element based implementation computes (TRUSTED; cross-checked natively each run).
#ifndef VX_FOLD_H
#define VX_FOLD_H
#include <algorithm>
template <typename T> T vx_fold_max(T a) { return a; }
template <typename T> T vx_fold_max(T a, T b) { return std::max(a, b); }
template <typename T> T vx_fold_max(T a, T b, T c) { return std::max(std::max(a, b), c); }
template <typename T> T vx_fold_min(T a) { return a; }
template <typename T> T vx_fold_min(T a, T b) { return std::min(a, b); }
template <typename T> T vx_fold_min(T a, T b, T c) { return std::min(std::min(a, b), c); }
#endif
