// R6: std::numeric_limits<T>::min()/max()/lowest() -> vx_limits_min((T)0) ...  (TRUSTED; cross-checked natively each run
// by stubs/native_limits_check.cpp which static_asserts every overload against the real std::numeric_limits)
#ifndef VX_LIMITS_H
#define VX_LIMITS_H
constexpr int vx_limits_min(int) { return -2147483647 - 1; }
constexpr int vx_limits_max(int) { return 2147483647; }
constexpr int vx_limits_lowest(int) { return -2147483647 - 1; }
constexpr long vx_limits_min(long) { return -9223372036854775807L - 1; }
constexpr long vx_limits_max(long) { return 9223372036854775807L; }
constexpr long vx_limits_lowest(long) { return -9223372036854775807L - 1; }
constexpr unsigned vx_limits_min(unsigned) { return 0u; }
constexpr unsigned vx_limits_max(unsigned) { return 4294967295u; }
constexpr unsigned vx_limits_lowest(unsigned) { return 0u; }
constexpr unsigned long vx_limits_min(unsigned long) { return 0ul; }
constexpr unsigned long vx_limits_max(unsigned long) { return 18446744073709551615ul; }
constexpr unsigned long vx_limits_lowest(unsigned long) { return 0ul; }
constexpr float vx_limits_min(float) { return 1.17549435e-38f; }
constexpr float vx_limits_max(float) { return 3.40282347e+38f; }
constexpr float vx_limits_lowest(float) { return -3.40282347e+38f; }
constexpr double vx_limits_min(double) { return 2.2250738585072014e-308; }
constexpr double vx_limits_max(double) { return 1.7976931348623157e+308; }
constexpr double vx_limits_lowest(double) { return -1.7976931348623157e+308; }
#endif
