// Run-time interface between the stub headers (C++) and the contract files (C).
// Everything declared here is defined in the unit's contracts.c.
#ifndef VX_RT_H
#define VX_RT_H
extern "C" {
// environment step under the rely (any number of steps by any number of other threads)
void vx_yield(void);
// ghost monitor: called inside every atomic operation, after the (indivisible) update.
//   obj: address of the atomic's value cell; kind: which operation; old/new: value before/after
void vx_step(void* obj, int kind, unsigned long oldv, unsigned long newv);
}
enum { VX_LOAD = 0, VX_STORE = 1, VX_FETCH_ADD = 2, VX_FETCH_SUB = 3, VX_FETCH_OR = 4, VX_CAS_OK = 5, VX_CAS_FAIL = 6,
       VX_FETCH_AND = 7, VX_EXCHANGE = 8 };
extern "C" bool vx_nondet_bool(void);
#endif
